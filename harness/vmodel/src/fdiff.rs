//! Function-level differentials used inside the coverage-guided target `fdiff`: the byte decoder (C04), the tokeniser
//! (C07) and the argument classifier (C08) against their reference models. Err = (expected, observed).

use embedded_cli::__verif::{ControlInput, Input, InputGenerator, Tokens};
use embedded_cli::arguments::{Arg, ArgList};

use crate::refs::{patterns_match, ref_classify, ref_token_patterns, ref_tokens, Key, RArg, RefDecoder};

fn key_of(input: &Input<'_>) -> Result<Key, String> {
    Ok(match input {
        Input::Control(c) => match c {
            ControlInput::Backspace => Key::Backspace,
            ControlInput::Down => Key::Down,
            ControlInput::Enter => Key::Enter,
            ControlInput::Back => Key::Left,
            ControlInput::Forward => Key::Right,
            ControlInput::Tab => Key::Tab,
            ControlInput::Up => Key::Up,
        },
        Input::Char(s) => {
            let t = core::str::from_utf8(s.as_bytes()).map_err(|_| "Char payload is not well-formed UTF-8".to_string())?;
            let mut it = t.chars();
            match (it.next(), it.next()) {
                (Some(c), None) => Key::Char(c),
                _ => return Err(format!("Char payload {:?} is not exactly one scalar", t)),
            }
        }
    })
}

/// C04: events (byte index, key) of the real decoder vs the reference decoder; streams in an open zone pass
pub fn decoder(bytes: &[u8]) -> Result<(), (String, String)> {
    let (expected, unspecified) = RefDecoder::decode_all(bytes);
    if unspecified || bytes.contains(&0x7F) {
        return Ok(());
    }
    let mut g = InputGenerator::new();
    let mut got: Vec<(usize, Key)> = Vec::new();
    for (i, &b) in bytes.iter().enumerate() {
        if let Some(inp) = g.accept(b) {
            got.push((i, key_of(&inp).map_err(|e| ("well-formed single-scalar Char payloads".to_string(), format!("at byte {}: {}", i, e)))?));
        }
    }
    if bytes.iter().any(|b| *b >= 0xF8) {
        // octets F8..FF can never be part of a character; whether they also end a pending sequence is left open (DESIGN 5.4),
        // so with them in the stream only "nothing well-formed is lost" is required
        let (mut i, g): (usize, Vec<Key>) = (0, got.iter().map(|x| x.1).collect());
        for (_, k) in &expected {
            match g[i..].iter().position(|x| x == k) {
                Some(p) => i += p + 1,
                None => return Err((format!("a supersequence of {:?}", expected), format!("{:?}", got))),
            }
        }
        return Ok(());
    }
    if got != expected {
        return Err((format!("{:?}", expected), format!("{:?}", got)));
    }
    Ok(())
}

/// C07: tokens of a NUL-free line vs the reference grammar (pattern reference where an escape is open)
pub fn tokens(line: &str) -> Result<(), (String, String)> {
    if line.contains('\0') {
        return Ok(());
    }
    let mut buf = line.as_bytes().to_vec();
    let s = core::str::from_utf8_mut(&mut buf).expect("a str");
    let t = Tokens::new(s);
    let empty = t.is_empty();
    let mut got: Vec<String> = Vec::new();
    for tok in t.iter() {
        if core::str::from_utf8(tok.as_bytes()).is_err() {
            return Err(("every token is well-formed UTF-8".into(), format!("{:02x?}", tok.as_bytes())));
        }
        got.push(tok.to_string());
    }
    if empty != got.is_empty() {
        return Err(("is_empty() exactly when there is no token".into(), format!("is_empty() = {}, {} tokens", empty, got.len())));
    }
    match ref_tokens(line) {
        Some(exp) => {
            if got != exp {
                return Err((format!("{:?}", exp), format!("{:?}", got)));
            }
        }
        None => {
            if let Some(p) = ref_token_patterns(line) {
                if !patterns_match(&p, &got) {
                    return Err((format!("tokens matching {:?}", p), format!("{:?}", got)));
                }
            }
        }
    }
    // and what the classifier makes of them
    if !got.is_empty() {
        args(&got[1..].to_vec())?;
    }
    Ok(())
}

/// C08: classification of a token list vs the reference classifier
pub fn args(list: &[String]) -> Result<(), (String, String)> {
    if list.iter().any(|t| t.contains('\0')) {
        return Ok(());
    }
    let raw = list.join("\0");
    let a = ArgList::new(Tokens::from_raw(&raw, list.is_empty()));
    let mut got = Vec::new();
    for x in a.args() {
        got.push(match x {
            Arg::DoubleDash => RArg::DoubleDash,
            Arg::LongOption(n) => RArg::Long(n.to_string()),
            Arg::ShortOption(c) => RArg::Short(c),
            Arg::Value(v) => RArg::Value(v.to_string()),
        });
        if got.len() > raw.len() + list.len() + 16 {
            return Err(("the iterator ends".into(), "more items than bytes".into()));
        }
    }
    let exp = ref_classify(list);
    if got != exp {
        return Err((format!("{:?}", exp), format!("{:?}", got)));
    }
    Ok(())
}

/// Fuzz entry: `mode` = decoder | tokens | args (args: tokens separated by 0x1E)
pub fn run(mode: &str, data: &[u8]) -> Result<(), (String, String)> {
    match mode {
        "decoder" => decoder(data),
        "tokens" => match core::str::from_utf8(data) {
            Ok(l) => tokens(l),
            Err(_) => Ok(()),
        },
        _ => match core::str::from_utf8(data) {
            Ok(l) => args(&l.split('\u{1e}').map(|s| s.to_string()).collect::<Vec<_>>()),
            Err(_) => Ok(()),
        },
    }
}
