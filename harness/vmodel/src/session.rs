//! Session driver: one real `Cli` + recording sink + logging command processor.

use std::{cell::RefCell, marker::PhantomData, rc::Rc};

use embedded_cli::{
    arguments::Arg,
    buffer::Buffer,
    cli::{Cli, CliBuilder, CliHandle},
    command::RawCommand,
    service::{Autocomplete, CommandProcessor, FromRaw, Help, ParseError, ProcessError},
    Command, CommandGroup,
};
use serde::{Deserialize, Serialize};

use crate::{
    refs::RArg,
    sink::{Fault, RecSink, SinkErr, SinkState},
};

/// One piece of static text; three of the prompts are prefixes of it, i.e. different prompts that start at the same
/// address (an application that shows a path prompt slices one string like this)
static PROMPT_BASE: &str = "#> ₿𝄞 ";

const fn prefix(s: &'static str, n: usize) -> &'static str {
    // n is on a character boundary of PROMPT_BASE (0, 1 and the whole string)
    unsafe { core::str::from_utf8_unchecked(core::slice::from_raw_parts(s.as_ptr(), n)) }
}

/// empty, ASCII, and prompts whose characters take 2, 3 and 4 bytes (a prompt is counted in characters on the terminal);
/// entries 1-3 share their start address
pub static PROMPTS: [&str; 5] = ["$ ", prefix(PROMPT_BASE, 0), prefix(PROMPT_BASE, 1), PROMPT_BASE, "дом> "];

/// A buffer as an application may hand it over: a window into a larger array that starts at any address (`off` = start
/// address modulo 8; an arena slice, the second of two buffers carved from one static) and, for odd lengths, is not zeroed
/// (a reused static). Both are a function of the length, so a case replays identically.
#[derive(Debug)]
pub struct OwnedBuf {
    /// `off` bytes of slack, then the window; the window ends where the allocation ends, so the sanitizer still sees
    /// every access behind the buffer
    store: Vec<u8>,
    off: usize,
}

/// Left-over content of a reused buffer: fragments of multi-byte characters, NUL, blank, ASCII
const STALE: [u8; 8] = [0xC3, 0xA9, 0x00, 0x20, 0xBF, 0x61, 0xF0, 0x9F];

impl OwnedBuf {
    pub fn with_offset(len: usize, off: usize, stale: bool) -> Self {
        let off = off % 8;
        let mut b = OwnedBuf { store: vec![0u8; off + len], off };
        if stale {
            for (i, x) in b.as_slice_mut().iter_mut().enumerate() {
                *x = STALE[(i + len) % 8];
            }
        }
        b
    }
    /// start address modulo 8 as it came out (the allocator aligns to 8 or more)
    pub fn misalignment(&self) -> usize {
        self.as_slice().as_ptr() as usize % 8
    }
}

/// `OwnedBuf(vec![0; n])`: a buffer of n bytes whose placement and initial content follow from n
#[allow(non_snake_case)]
pub fn OwnedBuf(v: Vec<u8>) -> OwnedBuf {
    let n = v.len();
    OwnedBuf::with_offset(n, n.wrapping_mul(5) + n / 8 * 3 + 3, n % 2 == 1)
}

impl Buffer for OwnedBuf {
    fn as_slice(&self) -> &[u8] {
        &self.store[self.off..]
    }
    fn as_slice_mut(&mut self) -> &mut [u8] {
        let o = self.off;
        &mut self.store[o..]
    }
}

// ------------------------------------------------------------------------------------------------
// output scripts

#[derive(Clone, Debug, PartialEq, Eq, Hash, Serialize, Deserialize)]
pub enum OutCall {
    WriteStr(String),
    WritelnStr(String),
    /// `ufmt::uwrite!(w, "{}", s)`
    Uwrite(String),
    /// `core::write!(w, "{}-{}", a, b)`
    Fmt(String, String),
    /// handler only: `CliHandle::set_prompt(PROMPTS[i])`
    SetPrompt(usize),
    /// `ufmt::uwrite!(w, "{}", c)` with a `char` argument (goes through `uWrite::write_char`)
    UwriteChar(char),
    /// `core::write!(w, "{}", c)` with a `char` argument (goes through `fmt::Write::write_char`)
    FmtChar(char),
    /// `Writer::write_list_element(name, description, longest_name)`: the layout it produces is nobody's property (see
    /// `rendered`); that it cannot panic for any argument is C03's, that its text is framed like any other text is C13's
    ListElement(String, String, usize),
    /// `Writer::write_title(text)`
    Title(String),
    /// `core::write!` / `writeln!` with a literal format string and no arguments (`Arguments::as_str()` is `Some`):
    /// 0 `write!(w, "done")`, 1 `writeln!(w, "one")`, 2 `write!(w, "\n")`, 3 `write!(w, "a\nb")`, 4 `write!(w, "")`
    FmtLit(u8),
    /// handler only: stop here and return `Err(ProcessError::ParseError(UnknownCommand))` - a hand-written processor
    /// that has already printed something (a usage hint) before it rejects the command
    FailParse,
}

impl OutCall {
    /// text this call contributes to the application output
    pub fn text(&self) -> String {
        match self {
            OutCall::WriteStr(s) | OutCall::Uwrite(s) => s.clone(),
            OutCall::WritelnStr(s) => format!("{}\n", s),
            OutCall::Fmt(a, b) => format!("{}-{}", a, b),
            OutCall::SetPrompt(_) | OutCall::FailParse => String::new(),
            OutCall::UwriteChar(c) | OutCall::FmtChar(c) => c.to_string(),
            OutCall::ListElement(..) | OutCall::Title(_) => rendered(self),
            OutCall::FmtLit(k) => ["done", "one\n", "\n", "a\nb", ""][(*k % 5) as usize].to_string(),
        }
    }
}

thread_local! {
    static RENDERED: RefCell<std::collections::HashMap<OutCall, String>> = RefCell::new(std::collections::HashMap::new());
}

/// The text a formatting helper of `Writer` (`write_list_element`, `write_title`) stands for. Its layout is nobody's property,
/// so it is not modelled but *observed*: the call is made alone, followed by `write_str("|")`, through `Cli::write` on a fresh
/// Cli, and whatever arrives between the erased line and that bar is the text (CR LF read back as LF). Wherever the call then
/// appears in an output script it must frame like `write_str` of that text (C13 speaks about the text, not about the entry
/// point). If the lone call does not come out in that shape the documented layout is used, and the comparison fails there.
pub fn rendered(call: &OutCall) -> String {
    if let Some(t) = RENDERED.with(|r| r.borrow().get(call).cloned()) {
        return t;
    }
    let documented = match call {
        OutCall::ListElement(n, d, longest) => format!("  {}{}  {}\n", n, " ".repeat(longest.saturating_sub(n.len())), d),
        OutCall::Title(t) => t.clone(),
        other => other.text(),
    };
    let observed = (|| -> Option<String> {
        let cfg = Config { cmd_buf: 0, hist_buf: 0, prompt: 0, ..Config::default() };
        let (s, _) = Sess::<RawSet>::new(&cfg, None);
        let mut s = s.ok()?;
        let o0 = s.out_len();
        crate::engine::guarded(|| s.write(&[call.clone(), OutCall::WriteStr("|".into())])).ok()?.ok()?;
        let out = s.out_from(o0);
        let out = String::from_utf8(out).ok()?;
        let body = out.strip_prefix("\r\x1b[2K")?.strip_suffix("|\r\n$ ")?;
        Some(body.replace("\r\n", "\n"))
    })();
    let t = observed.unwrap_or(documented);
    RENDERED.with(|r| r.borrow_mut().insert(call.clone(), t.clone()));
    t
}

/// The calls that are executed: everything before the first `FailParse`
pub fn effective(calls: &[OutCall]) -> &[OutCall] {
    let n = calls.iter().position(|c| matches!(c, OutCall::FailParse)).unwrap_or(calls.len());
    &calls[..n]
}

pub fn fails_parse(calls: &[OutCall]) -> bool {
    calls.iter().any(|c| matches!(c, OutCall::FailParse))
}

pub fn script_text(calls: &[OutCall]) -> String {
    effective(calls).iter().map(|c| c.text()).collect()
}

fn run_calls(
    w: &mut embedded_cli::writer::Writer<'_, RecSink, SinkErr>,
    calls: &[OutCall],
    sink: &Rc<RefCell<SinkState>>,
) -> Result<Option<usize>, SinkErr> {
    let mut prompt = None;
    for c in calls {
        match c {
            OutCall::WriteStr(s) => w.write_str(s)?,
            OutCall::WritelnStr(s) => w.writeln_str(s)?,
            OutCall::Uwrite(s) => ufmt::uwrite!(w, "{}", s.as_str())?,
            OutCall::Fmt(a, b) => {
                use core::fmt::Write;
                if core::write!(w, "{}-{}", a, b).is_err() {
                    // core::fmt loses the error value; hand back the one the sink raised
                    let last = sink.borrow().raised.last().copied().unwrap_or(usize::MAX);
                    return Err(SinkErr(last));
                }
            }
            OutCall::SetPrompt(i) => prompt = Some(*i),
            OutCall::UwriteChar(ch) => ufmt::uwrite!(w, "{}", *ch)?,
            OutCall::FmtChar(ch) => {
                use core::fmt::Write;
                if core::write!(w, "{}", ch).is_err() {
                    let last = sink.borrow().raised.last().copied().unwrap_or(usize::MAX);
                    return Err(SinkErr(last));
                }
            }
            OutCall::ListElement(n, d, longest) => w.write_list_element(n, d, *longest)?,
            OutCall::Title(t) => w.write_title(t)?,
            OutCall::FmtLit(k) => {
                use core::fmt::Write;
                let r = match *k % 5 {
                    0 => core::write!(w, "done"),
                    1 => core::writeln!(w, "one"),
                    2 => core::write!(w, "\n"),
                    3 => core::write!(w, "a\nb"),
                    _ => core::write!(w, ""),
                };
                if r.is_err() {
                    let last = sink.borrow().raised.last().copied().unwrap_or(usize::MAX);
                    return Err(SinkErr(last));
                }
            }
            OutCall::FailParse => break,
        }
    }
    Ok(prompt)
}

// ------------------------------------------------------------------------------------------------
// command sets

/// What the typed layer made of a raw command
pub type Typed = Result<String, PErr>;

#[derive(Clone, Debug, PartialEq, Eq, Serialize, Deserialize)]
pub enum PErr {
    MissingRequiredArgument(String),
    ParseValueError(String, String),
    UnexpectedArgument(String),
    UnexpectedLongOption(String),
    UnexpectedShortOption(char),
    UnknownCommand,
    Other,
}

impl PErr {
    pub fn from_lib(e: &ParseError<'_>) -> Self {
        match e {
            ParseError::MissingRequiredArgument { name } => Self::MissingRequiredArgument(name.to_string()),
            ParseError::ParseValueError { value, expected } => {
                Self::ParseValueError(value.to_string(), expected.to_string())
            }
            ParseError::UnexpectedArgument { value } => Self::UnexpectedArgument(value.to_string()),
            ParseError::UnexpectedLongOption { name } => Self::UnexpectedLongOption(name.to_string()),
            ParseError::UnexpectedShortOption { name } => Self::UnexpectedShortOption(*name),
            ParseError::UnknownCommand => Self::UnknownCommand,
            _ => Self::Other,
        }
    }
}

pub trait CmdSet: 'static {
    type C: Autocomplete + Help;
    const NAME: &'static str;
    /// command names taking part in completion (visible groups only), in declaration order
    fn names() -> Vec<String>;
    fn parse<'a>(raw: RawCommand<'a>) -> Result<String, ParseError<'a>>;
    /// Type the line and press Enter using the derive-generated `processor(closure)` wrapper:
    /// (what the closure received, sink bytes from Enter on). None = the set has no such wrapper.
    fn via_processor(_line: &str) -> Option<(Option<String>, Vec<u8>)> {
        None
    }
}

/// Implements `CmdSet::via_processor` for a derived root type
#[macro_export]
macro_rules! impl_via_processor {
    ($root:ty) => {
        fn via_processor(line: &str) -> Option<(Option<String>, Vec<u8>)> {
            let (sink, st) = $crate::sink::RecSink::new(false, None);
            let mut cli = embedded_cli::cli::CliBuilder::default()
                .writer(sink)
                .command_buffer($crate::session::OwnedBuf(vec![0u8; line.len() + 8]))
                .history_buffer($crate::session::OwnedBuf(vec![]))
                .build()
                .ok()?;
            let mut got: Option<String> = None;
            let from;
            {
                let mut p = <$root>::processor(|_cli, cmd| {
                    got = Some(format!("{:?}", cmd));
                    Ok(())
                });
                for b in line.bytes() {
                    cli.process_byte::<$root, _>(b, &mut p).ok()?;
                }
                from = st.borrow().bytes.len();
                cli.process_byte::<$root, _>(b'\r', &mut p).ok()?;
            }
            let out = st.borrow().bytes[from..].to_vec();
            Some((got, out))
        }
    };
}

pub struct RawSet;
impl CmdSet for RawSet {
    type C = RawCommand<'static>;
    const NAME: &'static str = "raw";
    fn names() -> Vec<String> {
        vec![]
    }
    fn parse<'a>(_raw: RawCommand<'a>) -> Result<String, ParseError<'a>> {
        Ok("raw".into())
    }
}

#[derive(Debug, Command)]
pub enum Base<'a> {
    /// Get current LED value
    GetLed {
        /// Print more
        #[arg(short, long)]
        verbose: bool,
        /// ID of requested LED
        id: u8,
    },
    /// Leave
    Exit,
    /// Get ADC value.
    ///
    /// Second paragraph of the description.
    GetAdc {
        /// Number of samples
        #[arg(long, short = 'n', default_value = "1")]
        samples: u32,
        channel: Option<u8>,
    },
    #[command(name = "set")]
    Set {
        #[arg(short = 'k', long = "ключ")]
        key: Option<&'a str>,
        name: &'a str,
        value: &'a str,
    },
    /// Nested commands
    #[command(subcommand)]
    Net(NetCmd<'a>),
}

#[derive(Debug, Command)]
pub enum NetCmd<'a> {
    /// Bring interface up
    Up {
        #[arg(short, long)]
        force: bool,
        iface: &'a str,
    },
    Down,
    /// Interface settings (a third level of nesting)
    #[command(subcommand)]
    Iface(IfaceCmd),
}

#[derive(Debug, Command)]
pub enum IfaceCmd {
    /// Enable the interface
    Up,
    /// Set the MTU
    Mtu {
        /// Bytes
        value: u16,
    },
}

#[derive(Debug, Command)]
pub enum Extra<'a> {
    /// Echo text back
    #[command(name = "эхо")]
    Echo { text: &'a str },
    /// Go somewhere
    GoTo {
        #[arg(short = 'x')]
        x: Option<i16>,
        #[arg(short = 'y', default_value_t = 5)]
        y: i16,
    },
    /// Say hello
    Hello,
    /// Two names whose first differing characters share a lead byte (D1 82 / D1 81 after `ст`)
    #[command(name = "старт")]
    Start,
    #[command(name = "стоп")]
    Stop,
    /// ASCII prefix, multi-byte ending (a completion that appends a multi-byte character to ASCII text)
    #[command(name = "até")]
    Ate,
    /// Configuration
    ///
    /// Shows everything when no sub-command is given
    Conf {
        #[arg(short, long)]
        verbose: bool,
        #[command(subcommand)]
        sub: Option<ConfCmd<'a>>,
    },
}

/// An optional sub-command (`conf`, `conf get key`, `conf reset`)
#[derive(Debug, Command)]
pub enum ConfCmd<'a> {
    /// Read one key
    Get {
        /// Key to read
        key: &'a str,
    },
    /// Forget everything
    Reset,
}

#[derive(Debug, Command)]
pub enum Secret {
    SecretCmd,
    Exec { what: u8 },
}

#[derive(Debug, CommandGroup)]
pub enum Grouped<'a> {
    Base(Base<'a>),
    #[group(hidden)]
    Secret(Secret),
    Extra(Extra<'a>),
}

pub struct EnumSet;
impl CmdSet for EnumSet {
    type C = Base<'static>;
    const NAME: &'static str = "enum";
    fn names() -> Vec<String> {
        ["get-led", "exit", "get-adc", "set", "net"].iter().map(|s| s.to_string()).collect()
    }
    fn parse<'a>(raw: RawCommand<'a>) -> Result<String, ParseError<'a>> {
        <Base<'a> as FromRaw<'a>>::parse(raw).map(|c| format!("{:?}", c))
    }
    crate::impl_via_processor!(Base<'_>);
}

/// C17 "used as a short-option character": short names outside ASCII in every spelling the macros accept - generated from a
/// field identifier (2, 3, 4 octets), char literal, string literal
#[allow(non_snake_case)]
#[derive(Debug, Command, PartialEq)]
pub enum Shorts {
    Sh {
        #[arg(short)]
        юникод: bool,
        #[arg(short)]
        値_level: Option<u8>,
        #[arg(short)]
        𠀀z: bool,
        #[arg(short = 'ж')]
        a: bool,
        #[arg(short = "é")]
        b: Option<u8>,
        #[arg(short = "佐")]
        c: bool,
        #[arg(short = "𐐷")]
        d: Option<u8>,
        #[arg(short = '𑿌')]
        e: bool,
    },
}

/// A `char` where a typed argument stands (C17: every scalar value is a `char` argument)
#[derive(Debug, Command, PartialEq)]
pub enum Chars {
    Chr {
        #[arg(short = 'o')]
        opt: Option<char>,
        c: char,
    },
}

pub struct CharsSet;
impl CmdSet for CharsSet {
    type C = Chars;
    const NAME: &'static str = "chars";
    fn names() -> Vec<String> {
        vec!["chr".to_string()]
    }
    fn parse<'a>(raw: RawCommand<'a>) -> Result<String, ParseError<'a>> {
        <Chars as FromRaw<'a>>::parse(raw).map(|c| format!("{:?}", c))
    }
}

pub struct ShortsSet;
impl CmdSet for ShortsSet {
    type C = Shorts;
    const NAME: &'static str = "shorts";
    fn names() -> Vec<String> {
        vec!["sh".to_string()]
    }
    fn parse<'a>(raw: RawCommand<'a>) -> Result<String, ParseError<'a>> {
        <Shorts as FromRaw<'a>>::parse(raw).map(|c| format!("{:?}", c))
    }
}

pub struct GroupSet;
impl CmdSet for GroupSet {
    type C = Grouped<'static>;
    const NAME: &'static str = "group";
    fn names() -> Vec<String> {
        ["get-led", "exit", "get-adc", "set", "net", "эхо", "go-to", "hello", "старт", "стоп", "até", "conf"]
            .iter()
            .map(|s| s.to_string())
            .collect()
    }
    fn parse<'a>(raw: RawCommand<'a>) -> Result<String, ParseError<'a>> {
        <Grouped<'a> as FromRaw<'a>>::parse(raw).map(|c| format!("{:?}", c))
    }
    crate::impl_via_processor!(Grouped<'_>);
}

thread_local! {
    /// name set used by `TlSet` (C11 library half)
    pub static TL_NAMES: RefCell<Vec<String>> = const { RefCell::new(Vec::new()) };
    /// where the hand-written implementation calls the public `mark_partial()`: 0 never, 1 before the first merge,
    /// 2 after the first merge, 3 after the last merge
    pub static TL_PARTIAL: core::cell::Cell<u8> = const { core::cell::Cell::new(0) };
}

/// Command set whose completion candidates come from a thread-local; follows the same protocol
/// as generated code: every name starting with the request merges its continuation.
pub struct TlNames;

impl Autocomplete for TlNames {
    #[cfg(feature = "autocomplete")]
    fn autocomplete(
        request: embedded_cli::autocomplete::Request<'_>,
        autocompletion: &mut embedded_cli::autocomplete::Autocompletion<'_>,
    ) {
        #[allow(irrefutable_let_patterns)]
        if let embedded_cli::autocomplete::Request::CommandName(name) = request {
            let mode = TL_PARTIAL.with(|p| p.get());
            if mode == 4 || mode == 5 {
                // the implementation works out the common continuation of its names itself, merges it once and says
                // through the public mark_partial() whether more than one name stands behind it
                let (common, count) = TL_NAMES.with(|n| {
                    let mut common: Option<Vec<char>> = None;
                    let mut count = 0;
                    for cand in n.borrow().iter() {
                        if cand.starts_with(name) {
                            count += 1;
                            let cont: Vec<char> = cand[name.len()..].chars().collect();
                            common = Some(match common {
                                None => cont,
                                Some(c) => c.iter().zip(cont.iter()).take_while(|(a, b)| a == b).map(|(a, _)| *a).collect(),
                            });
                        }
                    }
                    (common.map(|c| c.into_iter().collect::<String>()), count)
                });
                if let Some(common) = common {
                    if count >= 2 && mode == 4 {
                        autocompletion.mark_partial();
                    }
                    autocompletion.merge_autocompletion(&common);
                    if count >= 2 && mode == 5 {
                        autocompletion.mark_partial();
                    }
                }
                return;
            }
            if mode == 1 {
                autocompletion.mark_partial();
            }
            TL_NAMES.with(|n| {
                let mut merged = 0;
                for cand in n.borrow().iter() {
                    if cand.starts_with(name) {
                        autocompletion.merge_autocompletion(&cand[name.len()..]);
                        merged += 1;
                        if mode == 2 && merged == 1 {
                            autocompletion.mark_partial();
                        }
                    }
                }
            });
            if mode == 3 {
                autocompletion.mark_partial();
            }
        }
    }
}

impl Help for TlNames {
    #[cfg(feature = "help")]
    fn command_count() -> usize {
        0
    }
    #[cfg(feature = "help")]
    fn list_commands<W: embedded_io::Write<Error = E>, E: embedded_io::Error>(
        _: &mut embedded_cli::writer::Writer<'_, W, E>,
    ) -> Result<(), E> {
        Ok(())
    }
    #[cfg(feature = "help")]
    fn command_help<
        W: embedded_io::Write<Error = E>,
        E: embedded_io::Error,
        F: FnMut(&mut embedded_cli::writer::Writer<'_, W, E>) -> Result<(), E>,
    >(
        _: &mut F,
        _: RawCommand<'_>,
        _: &mut embedded_cli::writer::Writer<'_, W, E>,
    ) -> Result<(), embedded_cli::service::HelpError<E>> {
        Err(embedded_cli::service::HelpError::UnknownCommand)
    }
}

pub struct TlSet;
impl CmdSet for TlSet {
    type C = TlNames;
    const NAME: &'static str = "tl";
    fn names() -> Vec<String> {
        TL_NAMES.with(|n| n.borrow().clone())
    }
    fn parse<'a>(_raw: RawCommand<'a>) -> Result<String, ParseError<'a>> {
        Ok("raw".into())
    }
}

// ------------------------------------------------------------------------------------------------
// logging processor

#[derive(Clone, Debug, PartialEq, Eq)]
pub struct Call {
    pub name: Vec<u8>,
    pub args: Vec<LArg>,
    pub typed: Typed,
}

/// argument as seen by the handler; strings as raw bytes so that validity can be judged
#[derive(Clone, Debug, PartialEq, Eq)]
pub enum LArg {
    DoubleDash,
    Long(Vec<u8>),
    Short(u32),
    Value(Vec<u8>),
}

impl LArg {
    pub fn to_ref(&self) -> Option<RArg> {
        Some(match self {
            LArg::DoubleDash => RArg::DoubleDash,
            LArg::Long(b) => RArg::Long(String::from_utf8(b.clone()).ok()?),
            LArg::Short(c) => RArg::Short(char::from_u32(*c)?),
            LArg::Value(b) => RArg::Value(String::from_utf8(b.clone()).ok()?),
        })
    }
}

pub struct Proc<S: CmdSet> {
    pub log: Vec<Call>,
    /// invocation k runs scripts[k % len]
    pub scripts: Vec<Vec<OutCall>>,
    pub sink: Rc<RefCell<SinkState>>,
    _ph: PhantomData<S>,
}

impl<S: CmdSet> CommandProcessor<RecSink, SinkErr> for Proc<S> {
    fn process<'a>(
        &mut self,
        cli: &mut CliHandle<'_, RecSink, SinkErr>,
        raw: RawCommand<'a>,
    ) -> Result<(), ProcessError<'a, SinkErr>> {
        let k = self.log.len();
        let name = raw.name().as_bytes().to_vec();
        let mut args = Vec::new();
        let mut it = raw.args().args();
        for a in &mut it {
            args.push(match a {
                Arg::DoubleDash => LArg::DoubleDash,
                Arg::LongOption(n) => LArg::Long(n.as_bytes().to_vec()),
                Arg::ShortOption(c) => LArg::Short(c as u32),
                Arg::Value(v) => LArg::Value(v.as_bytes().to_vec()),
            });
        }
        // the iterator must be fused (C08)
        if it.next().is_some() || it.next().is_some() {
            args.push(LArg::Value(b"<<iterator not fused>>".to_vec()));
        }
        match S::parse(raw) {
            Ok(d) => self.log.push(Call {
                name,
                args,
                typed: Ok(d),
            }),
            Err(e) => {
                self.log.push(Call {
                    name,
                    args,
                    typed: Err(PErr::from_lib(&e)),
                });
                return Err(ProcessError::ParseError(e));
            }
        }
        if !self.scripts.is_empty() {
            let script = self.scripts[k % self.scripts.len()].clone();
            // every call in order; a prompt change is requested where it stands in the script (a handler may ask for
            // several prompts during one command: the last request counts)
            for call in effective(&script) {
                match call {
                    OutCall::SetPrompt(i) => cli.set_prompt(PROMPTS[*i % PROMPTS.len()]),
                    other => {
                        run_calls(cli.writer(), core::slice::from_ref(other), &self.sink)?;
                    }
                }
            }
            if fails_parse(&script) {
                return Err(ProcessError::ParseError(ParseError::UnknownCommand));
            }
        }
        Ok(())
    }
}

// ------------------------------------------------------------------------------------------------
// configuration and ops

#[derive(Clone, Debug, PartialEq, Eq, Hash, Serialize, Deserialize)]
pub struct Config {
    pub cmd_buf: usize,
    pub hist_buf: usize,
    pub prompt: usize,
    pub set: String,
    pub scripts: Vec<Vec<OutCall>>,
    pub short_writes: bool,
    /// 0 CR, 1 LF, 2 CRLF, 3 LFCR
    pub enter_style: u8,
    /// construct through the deprecated `Cli::new` instead of the builder
    pub use_new: bool,
    /// a slice of sessions encodes arrows with CSI parameter bytes
    pub arrow_params: bool,
    /// characters, Backspace and arrows are sent with `RawCommand` as the command set of those calls; Enter and Tab name the
    /// session's set (the set is a type parameter of every `process_byte` call)
    #[serde(default)]
    pub other_set: bool,
}

impl Default for Config {
    fn default() -> Self {
        Config {
            cmd_buf: 32,
            hist_buf: 32,
            prompt: 0,
            set: "raw".into(),
            scripts: vec![],
            short_writes: false,
            enter_style: 0,
            use_new: false,
            arrow_params: false,
            other_set: false,
        }
    }
}

#[derive(Clone, Debug, PartialEq, Eq, Hash, Serialize, Deserialize)]
pub enum Op {
    Char(char),
    Text(String),
    Backspace,
    Left,
    Right,
    Up,
    Down,
    Tab,
    Enter,
    Raw(Vec<u8>),
    Write(Vec<OutCall>),
    SetPrompt(usize),
}

impl Op {
    /// Bytes this op sends, given the previous byte sent (canonical encodings, DESIGN 7.2)
    pub fn encode(&self, cfg: &Config, prev: Option<u8>) -> Vec<u8> {
        let arrow = |f: u8| -> Vec<u8> {
            if cfg.arrow_params {
                vec![0x1B, b'[', b'1', b';', b'5', f]
            } else {
                vec![0x1B, b'[', f]
            }
        };
        match self {
            Op::Char(c) => c.to_string().into_bytes(),
            Op::Text(s) => s.clone().into_bytes(),
            Op::Backspace => vec![0x08],
            Op::Tab => vec![0x09],
            Op::Up => arrow(b'A'),
            Op::Down => arrow(b'B'),
            Op::Right => arrow(b'C'),
            Op::Left => arrow(b'D'),
            Op::Enter => {
                let mut e: Vec<u8> = match cfg.enter_style % 4 {
                    0 => vec![b'\r'],
                    1 => vec![b'\n'],
                    2 => vec![b'\r', b'\n'],
                    _ => vec![b'\n', b'\r'],
                };
                // never form an accidental pair with the previous terminator byte
                if let Some(p) = prev {
                    if (p == b'\r' || p == b'\n') && e[0] != p {
                        if e.len() == 2 {
                            e.swap(0, 1);
                        } else {
                            e[0] = p;
                        }
                    }
                }
                e
            }
            Op::Raw(b) => b.clone(),
            Op::Write(_) | Op::SetPrompt(_) => vec![],
        }
    }
}

// ------------------------------------------------------------------------------------------------
// the session

pub struct Sess<S: CmdSet> {
    pub cli: Cli<RecSink, SinkErr, OwnedBuf, OwnedBuf>,
    pub sink: Rc<RefCell<SinkState>>,
    pub proc_: Proc<S>,
    pub last_byte: Option<u8>,
}

#[derive(Clone, Debug, PartialEq, Eq)]
pub struct EditorView {
    pub bytes: Vec<u8>,
    pub cursor: usize,
    pub cap: usize,
    pub valid: usize,
}

impl EditorView {
    pub fn text(&self) -> Option<&str> {
        core::str::from_utf8(&self.bytes).ok()
    }
}

#[derive(Clone, Debug, PartialEq, Eq)]
pub struct HistoryView {
    pub buf: Vec<u8>,
    pub used: usize,
    pub cursor: Option<usize>,
}

impl HistoryView {
    /// entries oldest first; None if the raw buffer is not a sequence of NUL-terminated entries
    pub fn entries(&self) -> Option<Vec<Vec<u8>>> {
        if self.used > self.buf.len() {
            return None;
        }
        let used = &self.buf[..self.used];
        if used.is_empty() {
            return Some(vec![]);
        }
        if *used.last().unwrap() != 0 {
            return None;
        }
        Some(used[..used.len() - 1].split(|b| *b == 0).map(|e| e.to_vec()).collect())
    }

    /// index (oldest = 0) of the entry the navigation cursor points at
    pub fn position(&self) -> Option<Option<usize>> {
        let c = match self.cursor {
            None => return Some(None),
            Some(c) => c,
        };
        let mut start = 0;
        for (i, e) in self.entries()?.iter().enumerate() {
            if start == c {
                return Some(Some(i));
            }
            start += e.len() + 1;
        }
        None
    }
}

impl<S: CmdSet> Sess<S> {
    pub fn new(cfg: &Config, fault: Option<Fault>) -> (Result<Self, SinkErr>, Rc<RefCell<SinkState>>) {
        let (sink, st) = RecSink::new(cfg.short_writes, fault);
        let cb = OwnedBuf(vec![0u8; cfg.cmd_buf]);
        let hb = OwnedBuf(vec![0u8; cfg.hist_buf]);
        #[allow(deprecated)]
        let cli = if cfg.use_new {
            Cli::new(sink, cb, hb)
        } else {
            CliBuilder::default()
                .writer(sink)
                .command_buffer(cb)
                .history_buffer(hb)
                .prompt(PROMPTS[cfg.prompt % PROMPTS.len()])
                .build()
        };
        let r = cli.map(|cli| Sess {
            cli,
            sink: st.clone(),
            proc_: Proc {
                log: Vec::new(),
                scripts: cfg.scripts.clone(),
                sink: st.clone(),
                _ph: PhantomData,
            },
            last_byte: None,
        });
        (r, st)
    }

    pub fn byte(&mut self, b: u8) -> Result<(), SinkErr> {
        self.last_byte = Some(b);
        self.cli.process_byte::<S::C, _>(b, &mut self.proc_)
    }

    /// The same byte with `RawCommand` as the command set of *this* call: the set is a type parameter of every
    /// `process_byte` call, and what a call does may only depend on the set it is given
    pub fn byte_other_set(&mut self, b: u8) -> Result<(), SinkErr> {
        self.last_byte = Some(b);
        self.cli.process_byte::<RawCommand<'_>, _>(b, &mut self.proc_)
    }

    pub fn write(&mut self, calls: &[OutCall]) -> Result<(), SinkErr> {
        let sink = self.sink.clone();
        self.cli.write(|w| run_calls(w, calls, &sink).map(|_| ()))
    }

    pub fn set_prompt(&mut self, i: usize) -> Result<(), SinkErr> {
        self.cli.set_prompt(PROMPTS[i % PROMPTS.len()])
    }

    pub fn editor(&self) -> EditorView {
        let (b, c, cap) = self.cli.verif_editor().expect("editor present between calls");
        EditorView {
            bytes: b.to_vec(),
            cursor: c,
            cap,
            valid: self.cli.verif_editor_valid().unwrap(),
        }
    }

    #[cfg(feature = "history")]
    pub fn history(&self) -> HistoryView {
        let (b, u, c) = self.cli.verif_history();
        HistoryView {
            buf: b.to_vec(),
            used: u,
            cursor: c,
        }
    }

    #[cfg(not(feature = "history"))]
    pub fn history(&self) -> HistoryView {
        HistoryView {
            buf: vec![],
            used: 0,
            cursor: None,
        }
    }

    pub fn prompt(&self) -> &'static str {
        self.cli.verif_prompt()
    }

    pub fn calls(&self) -> usize {
        self.proc_.log.len()
    }

    /// bytes accepted by the sink so far
    pub fn out_len(&self) -> usize {
        self.sink.borrow().bytes.len()
    }

    pub fn out_from(&self, from: usize) -> Vec<u8> {
        self.sink.borrow().bytes[from..].to_vec()
    }
}

/// Dispatch on the command-set name of a config
#[macro_export]
macro_rules! with_set {
    ($name:expr, $f:ident ( $($arg:expr),* )) => {
        match $name {
            "raw" => $f::<$crate::session::RawSet>($($arg),*),
            "enum" => $f::<$crate::session::EnumSet>($($arg),*),
            "group" => $f::<$crate::session::GroupSet>($($arg),*),
            "tl" => $f::<$crate::session::TlSet>($($arg),*),
            other => panic!("unknown command set {}", other),
        }
    };
}
