//! Byte-level encoding of lock-step sessions for the coverage-guided target `lockstep`
//! (C01, C05, C06, C13, C15): the semantic oracle of `lockstep::run_case` runs inside the target.
//!
//! Input: `[cmd_buf % 65][hist_buf % 65][cfg][cfg2]` then a key stream:
//!   01 Left, 02 Right, 03 Up, 04 Down, 05 k `Cli::write(script k % 8)`, 06 k `set_prompt(k % 5)`,
//!   08 Backspace, 09 Tab, 0A / 0D Enter, printable ASCII and well-formed UTF-8 = that character;
//!   every other byte (other controls, DEL, ill-formed UTF-8, C1 controls) is skipped, so every
//!   input decodes to a session inside the properties' domain.
//! cfg bits 0-1: command set (raw / derived enum / derived group / raw), 2-3: handler script,
//! 4: short-write sink, 5: `Cli::new`, 6: arrows with CSI parameters, 7: keys other than Enter and Tab sent with another command set. cfg2 bits 0-1: Enter style,
//! bits 2-4: initial prompt.

use crate::{
    fuzzrun::{handler_scripts, write_script},
    lockstep::{run_case, Case, Flags},
    session::{Config, Op},
};

pub fn decode(data: &[u8]) -> Case {
    let g = |i: usize, d: u8| data.get(i).copied().unwrap_or(d);
    let c = g(2, 0);
    let c2 = g(3, 0);
    let cfg = Config {
        cmd_buf: g(0, 16) as usize % 65,
        hist_buf: g(1, 16) as usize % 65,
        prompt: ((c2 >> 2) & 7) as usize % 5,
        set: match c & 3 {
            1 => "enum",
            2 => "group",
            _ => "raw",
        }
        .to_string(),
        scripts: handler_scripts(((c >> 2) & 3) as usize),
        short_writes: c & 16 != 0,
        enter_style: c2 & 3,
        use_new: c & 32 != 0,
        arrow_params: c & 64 != 0,
        other_set: c & 128 != 0,
    };
    let body = if data.len() > 4 { &data[4..] } else { &[][..] };
    let mut ops = Vec::new();
    let mut i = 0;
    while i < body.len() {
        let b = body[i];
        i += 1;
        match b {
            0x01 => ops.push(Op::Left),
            0x02 => ops.push(Op::Right),
            0x03 => ops.push(Op::Up),
            0x04 => ops.push(Op::Down),
            0x05 => {
                if i < body.len() {
                    ops.push(Op::Write(write_script(body[i] as usize)));
                    i += 1;
                }
            }
            0x06 => {
                if i < body.len() {
                    ops.push(Op::SetPrompt(body[i] as usize % 5));
                    i += 1;
                }
            }
            0x08 => ops.push(Op::Backspace),
            0x09 => ops.push(Op::Tab),
            0x0A | 0x0D => ops.push(Op::Enter),
            0x20..=0x7E => ops.push(Op::Char(b as char)),
            0xC2..=0xF4 => {
                let n = if b < 0xE0 {
                    2
                } else if b < 0xF0 {
                    3
                } else {
                    4
                };
                if i - 1 + n <= body.len() {
                    if let Ok(s) = core::str::from_utf8(&body[i - 1..i - 1 + n]) {
                        let ch = s.chars().next().unwrap();
                        if ch as u32 >= 0xA0 {
                            ops.push(Op::Char(ch));
                        }
                        i += n - 1;
                    }
                }
            }
            _ => {}
        }
    }
    Case { cfg, ops }
}

/// Inverse of `decode` for sessions whose scripts come from the fixed tables (used to seed the corpus);
/// `Write` ops are mapped to script 1, `Text` is spelled out.
pub fn encode(c: &Case, write_k: u8) -> Vec<u8> {
    let mut cb = match c.cfg.set.as_str() {
        "enum" => 1u8,
        "group" => 2,
        _ => 0,
    };
    cb |= ((c.cfg.scripts.len() as u8) & 3) << 2;
    if c.cfg.short_writes {
        cb |= 16;
    }
    if c.cfg.use_new {
        cb |= 32;
    }
    if c.cfg.arrow_params {
        cb |= 64;
    }
    if c.cfg.other_set {
        cb |= 128;
    }
    let c2 = (c.cfg.enter_style & 3) | (((c.cfg.prompt % 5) as u8) << 2);
    let mut out = vec![(c.cfg.cmd_buf % 65) as u8, (c.cfg.hist_buf % 65) as u8, cb, c2];
    let mut k = write_k;
    for op in &c.ops {
        match op {
            Op::Char(ch) => out.extend(ch.to_string().as_bytes()),
            Op::Text(t) => out.extend(t.as_bytes()),
            Op::Backspace => out.push(0x08),
            Op::Left => out.push(0x01),
            Op::Right => out.push(0x02),
            Op::Up => out.push(0x03),
            Op::Down => out.push(0x04),
            Op::Tab => out.push(0x09),
            Op::Enter => out.push(0x0D),
            Op::Raw(_) => {}
            Op::Write(_) => {
                out.extend([0x05, k]);
                k = k.wrapping_add(1);
            }
            Op::SetPrompt(p) => out.extend([0x06, *p as u8]),
        }
    }
    out
}

/// `"dispatch,editor,screen,framing,flush"` (any subset; `all` = every oracle)
pub fn parse_flags(s: &str) -> Flags {
    let mut f = Flags {
        help_on: cfg!(feature = "help"),
        ..Default::default()
    };
    for w in s.split(',') {
        match w.trim() {
            "dispatch" => f.dispatch = true,
            "editor" => f.editor = true,
            "screen" => f.screen = true,
            "framing" => f.framing = true,
            "flush" => f.flush = true,
            "complete" => f.complete = true,
            "all" => {
                f.dispatch = true;
                f.editor = true;
                f.screen = true;
                f.framing = true;
                f.flush = true;
            }
            _ => {}
        }
    }
    f
}

/// Run one fuzz input under the given oracles. Err = (expected, observed).
/// An escape sequence outside the emulator's repertoire is not a failure (the normal harness reports
/// it as inconclusive when the corpus is replayed there).
pub fn run(data: &[u8], flags: Flags) -> Result<(), (String, String)> {
    let case = decode(data);
    run_case(&case, flags).map(|_| ())
}
