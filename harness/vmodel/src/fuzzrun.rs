//! Byte-level session format shared by the libFuzzer target and the C03 check, and the
//! invariants behind every unchecked operation of the library.
//!
//! Input: `[cmd_buf % 65][hist_buf % 65][cfg]` then input bytes; `FF 00` = literal FF,
//! `FF 01 k` = `Cli::write(script k % 8)`, `FF 02 k` = `set_prompt(PROMPTS[k % 5])`, a final lone
//! `FF` = literal. cfg bits 0-1: command set (raw / derived enum / derived group / raw),
//! bits 2-3: handler script, bit 4: short-write sink, bit 5: Cli::new instead of the builder.

use crate::session::{CmdSet, Config, EnumSet, GroupSet, OutCall, RawSet, Sess};

#[derive(Clone, Debug, PartialEq, Eq)]
pub enum FuzzOp {
    Byte(u8),
    Write(usize),
    SetPrompt(usize),
}

pub fn write_script(k: usize) -> Vec<OutCall> {
    match k % 8 {
        0 => vec![],
        1 => vec![OutCall::WriteStr("x".into())],
        2 => vec![OutCall::WritelnStr("line".into())],
        3 => vec![OutCall::WriteStr("a\nb".into()), OutCall::WriteStr("\r".into()), OutCall::WriteStr("\n".into())],
        4 => vec![OutCall::Uwrite("é₿\n".into())],
        5 => vec![OutCall::Fmt("p".into(), "q\n".into())],
        6 => vec![OutCall::WriteStr("".into()), OutCall::WritelnStr("".into()), OutCall::FmtChar('!')],
        _ => vec![OutCall::WriteStr("tail\r\n".into()), OutCall::WriteStr("more".into())],
    }
}

/// Application writes of the C03 sessions: the shared scripts plus the list/title helpers of `Writer` with every kind of
/// `longest_name` (smaller than the name, equal, larger, much larger)
pub fn write_script_c03(k: usize) -> Vec<OutCall> {
    match k % 16 {
        8 => vec![OutCall::ListElement("uart".into(), "ready".into(), 40)],
        9 => vec![OutCall::ListElement("a-rather-long-name".into(), "d".into(), 3), OutCall::ListElement("é".into(), "".into(), 2)],
        10 => vec![OutCall::Title("Commands:".into()), OutCall::ListElement("x".into(), "y\nz".into(), 1), OutCall::ListElement("".into(), "".into(), 0)],
        11 => vec![OutCall::ListElement("n".into(), "far".into(), 200), OutCall::ListElement("n".into(), "edge".into(), 33), OutCall::ListElement("n".into(), "edge".into(), 34)],
        12 => vec![OutCall::UwriteChar('é'), OutCall::FmtChar('\n'), OutCall::Title("".into())],
        // a column sized in characters by the application: longest_name between the name's character count and its length
        13 => vec![OutCall::ListElement("температура".into(), "t".into(), 11), OutCall::ListElement("влажность".into(), "h".into(), 11), OutCall::ListElement("имя".into(), "".into(), 4)],
        14 => vec![OutCall::ListElement("₿𝄞".into(), "two characters, seven octets".into(), 3), OutCall::ListElement("₿𝄞".into(), "".into(), 6), OutCall::ListElement("₿𝄞".into(), "".into(), 7)],
        k => write_script(k),
    }
}

pub fn handler_scripts(k: usize) -> Vec<Vec<OutCall>> {
    match k % 4 {
        0 => vec![],
        1 => vec![vec![OutCall::WriteStr("ok".into())]],
        2 => vec![vec![OutCall::WritelnStr("done".into()), OutCall::SetPrompt(3)], vec![OutCall::SetPrompt(1)]],
        _ => vec![vec![OutCall::Fmt("a".into(), "b".into()), OutCall::WriteStr("\n".into())], vec![OutCall::UwriteChar('#')], vec![OutCall::WriteStr("usage: x".into()), OutCall::FailParse]],
    }
}

pub fn decode(data: &[u8]) -> (Config, Vec<FuzzOp>) {
    let cb = data.first().copied().unwrap_or(8) as usize % 65;
    let hb = data.get(1).copied().unwrap_or(8) as usize % 65;
    let c = data.get(2).copied().unwrap_or(0);
    let cfg = Config {
        cmd_buf: cb,
        hist_buf: hb,
        prompt: 0,
        set: match c & 3 {
            1 => "enum",
            2 => "group",
            _ => "raw",
        }
        .to_string(),
        scripts: handler_scripts(((c >> 2) & 3) as usize),
        short_writes: c & 16 != 0,
        enter_style: 0,
        use_new: c & 32 != 0,
        arrow_params: false,
        other_set: false,
    };
    let mut ops = Vec::new();
    let body = if data.len() > 3 { &data[3..] } else { &[][..] };
    let mut i = 0;
    while i < body.len() {
        let b = body[i];
        if b == 0xFF && i + 1 < body.len() {
            match body[i + 1] {
                0 => {
                    ops.push(FuzzOp::Byte(0xFF));
                    i += 2;
                    continue;
                }
                1 if i + 2 < body.len() => {
                    ops.push(FuzzOp::Write(body[i + 2] as usize));
                    i += 3;
                    continue;
                }
                2 if i + 2 < body.len() => {
                    ops.push(FuzzOp::SetPrompt(body[i + 2] as usize));
                    i += 3;
                    continue;
                }
                _ => {}
            }
        }
        ops.push(FuzzOp::Byte(b));
        i += 1;
    }
    (cfg, ops)
}

pub fn encode(cfg: &Config, ops: &[FuzzOp]) -> Vec<u8> {
    let set = match cfg.set.as_str() {
        "enum" => 1u8,
        "group" => 2,
        _ => 0,
    };
    let mut c = set;
    if cfg.short_writes {
        c |= 16;
    }
    if cfg.use_new {
        c |= 32;
    }
    let mut out = vec![cfg.cmd_buf as u8, cfg.hist_buf as u8, c];
    for op in ops {
        match op {
            FuzzOp::Byte(0xFF) => out.extend([0xFF, 0]),
            FuzzOp::Byte(b) => out.push(*b),
            FuzzOp::Write(k) => out.extend([0xFF, 1, *k as u8]),
            FuzzOp::SetPrompt(k) => out.extend([0xFF, 2, *k as u8]),
        }
    }
    out
}

#[derive(Default, Clone, Debug)]
pub struct Reach {
    pub full_buffer: bool,
    pub eviction: bool,
    pub recall_after_eviction: bool,
    pub tiny_buffer: bool,
    pub completion_tight: bool,
    pub handler_calls: usize,
}

impl Reach {
    pub fn any(&self) -> bool {
        self.full_buffer || self.eviction || self.recall_after_eviction || self.tiny_buffer || self.completion_tight
    }
}

/// Everything the library's unchecked operations rely on (allocation-free: runs after every byte)
pub fn check_invariants<S: CmdSet>(s: &Sess<S>) -> Result<(), String> {
    let (bytes, cursor, cap) = s.cli.verif_editor().ok_or("editor missing between calls")?;
    let valid = s.cli.verif_editor_valid().unwrap_or(0);
    if valid > cap {
        return Err(format!("editor: valid ({}) exceeds the buffer ({})", valid, cap));
    }
    let text = core::str::from_utf8(bytes).map_err(|_| format!("editor: bytes are not well-formed UTF-8: {:02x?}", bytes))?;
    if cursor > text.len() || cursor > text.chars().count() {
        return Err(format!("editor: cursor {} beyond the {} characters of {:?}", cursor, text.chars().count(), text));
    }
    check_history(s)
}

#[cfg(feature = "history")]
fn check_history<S: CmdSet>(s: &Sess<S>) -> Result<(), String> {
    let (buf, used, nav) = s.cli.verif_history();
    if used > buf.len() {
        return Err(format!("history: used ({}) exceeds the buffer ({})", used, buf.len()));
    }
    let region = &buf[..used];
    if used > 0 && region[used - 1] != 0 {
        return Err(format!("history: last used byte is not NUL: {:02x?}", region));
    }
    if core::str::from_utf8(region).is_err() {
        return Err(format!("history: stored entries are not well-formed UTF-8: {:02x?}", region));
    }
    let mut start = 0;
    let mut nav_ok = nav.is_none();
    for (i, b) in region.iter().enumerate() {
        if *b == 0 {
            if i == start {
                return Err(format!("history: empty entry stored at byte {}", i));
            }
            if nav == Some(start) {
                nav_ok = true;
            }
            start = i + 1;
        }
    }
    if !nav_ok {
        return Err(format!("history: navigation cursor {:?} is not at the start of an entry (used {})", nav, used));
    }
    Ok(())
}

#[cfg(not(feature = "history"))]
fn check_history<S: CmdSet>(_s: &Sess<S>) -> Result<(), String> {
    Ok(())
}

#[cfg(feature = "history")]
fn hist_used<S: CmdSet>(s: &Sess<S>) -> usize {
    s.cli.verif_history().1
}

#[cfg(not(feature = "history"))]
fn hist_used<S: CmdSet>(_s: &Sess<S>) -> usize {
    0
}

pub fn run_ops<S: CmdSet>(cfg: &Config, ops: &[FuzzOp]) -> Result<Reach, String> {
    let (s, _) = Sess::<S>::new(cfg, None);
    let mut s = s.map_err(|e| format!("construction failed with a working sink: {:?}", e))?;
    let mut reach = Reach {
        tiny_buffer: cfg.cmd_buf <= 1 || cfg.hist_buf <= 1,
        ..Default::default()
    };
    check_invariants(&s)?;
    let mut evicted = false;
    for (i, op) in ops.iter().enumerate() {
        let used_before = hist_used(&s);
        let (pre_len, pre_cursor) = s.cli.verif_editor().map(|e| (e.0.len(), e.1)).unwrap_or((0, 0));
        let r = match op {
            FuzzOp::Byte(b) => s.byte(*b),
            FuzzOp::Write(k) => s.write(&write_script_c03(*k)),
            FuzzOp::SetPrompt(k) => s.set_prompt(*k),
        };
        if let Err(e) = r {
            return Err(format!("op #{} {:?}: error {:?} with a working sink", i, op, e));
        }
        check_invariants(&s).map_err(|e| format!("after op #{} {:?}: {}", i, op, e))?;
        let (len, cursor) = s.cli.verif_editor().map(|e| (e.0.len(), e.1)).unwrap_or((0, 0));
        if cfg.cmd_buf > 0 && len == cfg.cmd_buf {
            reach.full_buffer = true;
        }
        if let FuzzOp::Byte(b) = op {
            if (*b == b'\r' || *b == b'\n') && pre_len > 0 && pre_len + 1 <= cfg.hist_buf {
                // a recordable line was submitted: used grows by len+1 unless room had to be made
                // (or it was a duplicate)
                if hist_used(&s) < used_before + pre_len + 1 && hist_used(&s) + pre_len + 1 > cfg.hist_buf {
                    evicted = true;
                    reach.eviction = true;
                }
            }
            if *b == b'\t' && cfg.cmd_buf < pre_len + 2 && len != pre_len {
                reach.completion_tight = true;
            }
            if evicted && *b == b'A' && (len != pre_len || cursor != pre_cursor) {
                reach.recall_after_eviction = true;
            }
        }
    }
    reach.handler_calls = s.calls();
    // every string the handler saw must be sound
    for c in &s.proc_.log {
        core::str::from_utf8(&c.name).map_err(|_| "handler received an ill-formed command name".to_string())?;
        for a in &c.args {
            match a {
                crate::session::LArg::Long(b) | crate::session::LArg::Value(b) => {
                    core::str::from_utf8(b).map_err(|_| "handler received an ill-formed string".to_string())?;
                }
                crate::session::LArg::Short(u) => {
                    char::from_u32(*u).ok_or_else(|| format!("handler received short option {:#x}, not a scalar value", u))?;
                }
                crate::session::LArg::DoubleDash => {}
            }
        }
    }
    Ok(reach)
}

pub fn run_decoded(cfg: &Config, ops: &[FuzzOp]) -> Result<Reach, String> {
    match cfg.set.as_str() {
        "enum" => run_ops::<EnumSet>(cfg, ops),
        "group" => run_ops::<GroupSet>(cfg, ops),
        _ => run_ops::<RawSet>(cfg, ops),
    }
}

pub fn run(data: &[u8]) -> Result<Reach, String> {
    let (cfg, ops) = decode(data);
    run_decoded(&cfg, &ops)
}
