//! Minimal ECMA-48 / VT100 screen emulator (C06, C13, C01, C12).
//!
//! Repertoire: printable scalars (one cell each, overwrite mode), CR, LF (down, same column),
//! BS, CSI n C / D / P / @ / K / G. Anything else makes the emulator *inconclusive* —
//! never a violation.

#[derive(Clone, Debug)]
pub struct Screen {
    /// rows `base..`; rows scrolled off long ago are dropped (nothing ever moves the cursor up), so a session of any
    /// length costs the same per byte
    pub lines: Vec<Vec<char>>,
    /// number of rows dropped from the front of `lines`
    pub base: usize,
    /// absolute row of the cursor
    pub row: usize,
    pub col: usize,
    state: St,
    params: Vec<u8>,
    utf8: Vec<u8>,
    /// first thing the emulator did not understand
    pub inconclusive: Option<String>,
    /// the byte stream was not valid UTF-8
    pub bad_utf8: bool,
}

#[derive(Clone, Copy, Debug, PartialEq, Eq)]
enum St {
    Normal,
    Esc,
    Csi,
}

impl Default for Screen {
    fn default() -> Self {
        Self::new()
    }
}

impl Screen {
    pub fn new() -> Self {
        Self {
            lines: vec![Vec::new()],
            base: 0,
            row: 0,
            col: 0,
            state: St::Normal,
            params: Vec::new(),
            utf8: Vec::new(),
            inconclusive: None,
            bad_utf8: false,
        }
    }

    /// A copy that can be fed on its own: only the rows from the cursor's row on are copied (nothing moves the cursor up)
    pub fn fork(&self) -> Self {
        let i = (self.row - self.base).min(self.lines.len());
        Self {
            lines: self.lines[i..].to_vec(),
            base: self.base + i,
            row: self.row,
            col: self.col,
            state: self.state,
            params: self.params.clone(),
            utf8: self.utf8.clone(),
            inconclusive: self.inconclusive.clone(),
            bad_utf8: self.bad_utf8,
        }
    }

    fn unknown(&mut self, what: String) {
        if self.inconclusive.is_none() {
            self.inconclusive = Some(what);
        }
    }

    fn line_mut(&mut self) -> &mut Vec<char> {
        while self.base + self.lines.len() <= self.row {
            self.lines.push(Vec::new());
        }
        if self.lines.len() > 512 {
            // keep the last 256 rows (one output script is a few dozen rows at most)
            let drop = self.lines.len() - 256;
            self.lines.drain(..drop);
            self.base += drop;
        }
        let i = self.row - self.base;
        &mut self.lines[i]
    }

    fn put(&mut self, c: char) {
        let col = self.col;
        let line = self.line_mut();
        while line.len() < col {
            line.push(' ');
        }
        if col < line.len() {
            line[col] = c;
        } else {
            line.push(c);
        }
        self.col += 1;
    }

    fn param(&self, default: usize) -> Option<usize> {
        if self.params.is_empty() {
            return Some(default);
        }
        let s = core::str::from_utf8(&self.params).ok()?;
        s.parse::<usize>().ok()
    }

    pub fn feed(&mut self, bytes: &[u8]) {
        for &b in bytes {
            self.byte(b);
        }
    }

    pub fn byte(&mut self, b: u8) {
        match self.state {
            St::Esc => {
                if b == b'[' {
                    self.state = St::Csi;
                    self.params.clear();
                } else {
                    self.unknown(format!("ESC followed by {:#04x}", b));
                    self.state = St::Normal;
                }
                return;
            }
            St::Csi => {
                if (0x30..=0x3F).contains(&b) || (0x20..=0x2F).contains(&b) {
                    self.params.push(b);
                    return;
                }
                self.state = St::Normal;
                self.csi_final(b);
                return;
            }
            St::Normal => {}
        }
        if b < 0x80 && !self.utf8.is_empty() {
            self.bad_utf8 = true;
            self.utf8.clear();
        }
        match b {
            0x1B => self.state = St::Esc,
            b'\r' => self.col = 0,
            b'\n' => {
                self.row += 1;
                self.line_mut();
            }
            0x08 => self.col = self.col.saturating_sub(1),
            0x00..=0x1F | 0x7F => self.unknown(format!("control byte {:#04x}", b)),
            0x20..=0x7E => self.put(b as char),
            _ => {
                self.utf8.push(b);
                match core::str::from_utf8(&self.utf8) {
                    Ok(s) => {
                        let c = s.chars().next().unwrap();
                        self.utf8.clear();
                        self.put(c);
                    }
                    Err(e) if e.error_len().is_none() => {}
                    Err(_) => {
                        self.bad_utf8 = true;
                        self.utf8.clear();
                    }
                }
            }
        }
    }

    fn csi_final(&mut self, b: u8) {
        let p = match b {
            b'K' => self.param(0),
            _ => self.param(1),
        };
        let n = match p {
            Some(n) => n,
            None => {
                self.unknown(format!(
                    "CSI parameters {:?} final {:?}",
                    String::from_utf8_lossy(&self.params),
                    b as char
                ));
                return;
            }
        };
        match b {
            b'C' => self.col += n.max(1),
            b'D' => self.col = self.col.saturating_sub(n.max(1)),
            b'G' => self.col = n.max(1) - 1,
            b'P' => {
                let col = self.col;
                let line = self.line_mut();
                for _ in 0..n.max(1) {
                    if col < line.len() {
                        line.remove(col);
                    }
                }
            }
            b'@' => {
                let col = self.col;
                let line = self.line_mut();
                if col < line.len() {
                    for _ in 0..n.max(1) {
                        line.insert(col, ' ');
                    }
                }
            }
            b'K' => {
                let col = self.col;
                let line = self.line_mut();
                match n {
                    0 => line.truncate(col),
                    1 => {
                        for c in line.iter_mut().take(col + 1) {
                            *c = ' ';
                        }
                    }
                    2 => line.clear(),
                    _ => self.unknown(format!("CSI {} K", n)),
                }
            }
            _ => self.unknown(format!(
                "CSI {:?} {:?}",
                String::from_utf8_lossy(&self.params),
                b as char
            )),
        }
    }

    /// current line with trailing blanks removed
    pub fn current_line(&self) -> String {
        self.line_text(self.row)
    }

    pub fn line_text(&self, row: usize) -> String {
        let s: String = row.checked_sub(self.base).and_then(|i| self.lines.get(i)).map(|l| l.iter().collect()).unwrap_or_default();
        s.trim_end_matches(' ').to_string()
    }

    /// every row by its absolute index (rows dropped long ago read as empty)
    pub fn all_lines(&self) -> Vec<String> {
        (0..self.base + self.lines.len()).map(|r| self.line_text(r)).collect()
    }

    pub fn is_last_row(&self) -> bool {
        let i = self.row - self.base;
        i + 1 >= self.lines.len() || self.lines[i + 1..].iter().all(|l| l.iter().all(|c| *c == ' '))
    }

    /// pending partial escape or character (stream cut in the middle of something)
    pub fn mid_sequence(&self) -> bool {
        self.state != St::Normal || !self.utf8.is_empty()
    }
}

#[cfg(test)]
mod tests {
    use super::*;

    #[test]
    fn basics() {
        let mut s = Screen::new();
        s.feed("$ abc".as_bytes());
        s.feed(b"\x1b[D\x1b[D");
        s.feed(b"\x1b[@x");
        assert_eq!(s.current_line(), "$ axbc");
        assert_eq!(s.col, 4);
        s.feed(b"\x1b[D\x1b[P");
        assert_eq!(s.current_line(), "$ abc");
        s.feed(b"\r\x1b[2K# ");
        assert_eq!(s.current_line(), "#");
        assert_eq!(s.col, 2);
        s.feed(b"x\ny");
        assert_eq!(s.all_lines(), vec!["# x".to_string(), "   y".to_string()]);
        assert!(s.inconclusive.is_none());
    }
}
