//! Request server used by the generated declaration crates (C09, C11, C12):
//! one JSON request per stdin line, one JSON reply per stdout line.

use std::io::{BufRead, Write};

use serde_json::{json, Value};

use crate::session::{CmdSet, Config, Sess};

fn hex(b: &[u8]) -> String {
    b.iter().map(|x| format!("{:02x}", x)).collect()
}

/// How the line gets into the editor before the Enter that is observed: what a command does may depend on the line only, not
/// on how it was put together (0 typed front to back, 1 submitted once and recalled with Up, 2 second half first and the first
/// half inserted in front of it - Enter with the cursor inside the line, 3 with a stray character typed and erased in the middle)
pub fn route_of(line: &str) -> u32 {
    if line.is_empty() {
        return 0;
    }
    let mut h: u32 = 0x811c9dc5;
    for b in line.bytes() {
        h = (h ^ b as u32).wrapping_mul(0x01000193);
    }
    (h >> 7) % 4
}

/// Type a line and press Enter; report handler invocations and everything the sink got from Enter on.
pub fn observe_line<S: CmdSet>(line: &str) -> Value {
    let route = route_of(line);
    let cfg = Config {
        cmd_buf: line.len() + 8,
        hist_buf: if route == 1 { line.len() + 9 } else { 0 },
        ..Config::default()
    };
    let (s, _) = Sess::<S>::new(&cfg, None);
    let mut s = match s {
        Ok(s) => s,
        Err(e) => return json!({"error": format!("construction failed: {:?}", e)}),
    };
    let mid = {
        let mut m = line.len() / 2;
        while !line.is_char_boundary(m) {
            m -= 1;
        }
        m
    };
    let mut keys: Vec<u8> = Vec::new();
    match route {
        1 => {
            keys.extend_from_slice(line.as_bytes());
            keys.push(b'\r');
            keys.extend_from_slice(b"\x1b[A");
        }
        2 => {
            keys.extend_from_slice(line[mid..].as_bytes());
            for _ in 0..line[mid..].chars().count() {
                keys.extend_from_slice(b"\x1b[D");
            }
            keys.extend_from_slice(line[..mid].as_bytes());
        }
        3 => {
            keys.extend_from_slice(line[..mid].as_bytes());
            keys.extend_from_slice(b"x\x08");
            keys.extend_from_slice(line[mid..].as_bytes());
        }
        _ => keys.extend_from_slice(line.as_bytes()),
    }
    for &b in &keys {
        if let Err(e) = s.byte(b) {
            return json!({"error": format!("process_byte failed: {:?}", e)});
        }
    }
    if route == 1 {
        // only the second submission (the recalled line) is reported
        s.proc_.log.clear();
    }
    let typed_ok = s.editor().bytes == line.as_bytes();
    let o0 = s.out_len();
    if let Err(e) = s.byte(b'\r') {
        return json!({"error": format!("process_byte(Enter) failed: {:?}", e)});
    }
    let out = s.out_from(o0);
    let calls: Vec<Value> = s
        .proc_
        .log
        .iter()
        .map(|c| {
            json!({
                "name": String::from_utf8_lossy(&c.name),
                "typed": match &c.typed { Ok(d) => json!({"ok": d}), Err(e) => json!({"err": e}) },
            })
        })
        .collect();
    let via = match S::via_processor(line) {
        Some((got, o)) => json!({"closure": got, "out": String::from_utf8_lossy(&o)}),
        None => Value::Null,
    };
    json!({"typed_ok": typed_ok, "route": route, "calls": calls, "via_processor": via, "out": String::from_utf8_lossy(&out), "out_valid_utf8": core::str::from_utf8(&out).is_ok(), "out_hex": hex(&out), "unflushed": s.sink.borrow().unflushed})
}

#[derive(Clone, Debug)]
pub struct TabObs {
    /// the line could be set up (it fits the buffer)
    pub fit: bool,
    pub pre_cursor: usize,
    pub new: Vec<u8>,
    pub cursor: usize,
    pub out: Vec<u8>,
    pub error: Option<String>,
}

/// Type a line, move the cursor left to `cursor`, press Tab.
pub fn observe_tab<S: CmdSet>(line: &str, cursor: usize, cap: usize, prompt: usize) -> TabObs {
    let mut obs = TabObs {
        fit: false,
        pre_cursor: 0,
        new: vec![],
        cursor: 0,
        out: vec![],
        error: None,
    };
    let cfg = Config {
        cmd_buf: cap,
        hist_buf: 0,
        prompt,
        ..Config::default()
    };
    let (s, _) = Sess::<S>::new(&cfg, None);
    let mut s = match s {
        Ok(s) => s,
        Err(e) => {
            obs.error = Some(format!("construction failed: {:?}", e));
            return obs;
        }
    };
    // lines of odd length are typed (and the cursor moved) with another command set as the type parameter of those calls;
    // the Tab itself always names S
    let other = line.len() % 2 == 1;
    let feed = |s: &mut Sess<S>, bytes: &[u8]| -> Result<(), String> {
        for &b in bytes {
            if other && b != b'\t' { s.byte_other_set(b) } else { s.byte(b) }.map_err(|e| format!("process_byte failed: {:?}", e))?;
        }
        Ok(())
    };
    if let Err(e) = feed(&mut s, line.as_bytes()) {
        obs.error = Some(e);
        return obs;
    }
    let nchars = line.chars().count();
    for _ in cursor..nchars {
        if let Err(e) = feed(&mut s, b"\x1b[D") {
            obs.error = Some(e);
            return obs;
        }
    }
    let pre = s.editor();
    obs.pre_cursor = pre.cursor;
    if pre.bytes != line.as_bytes() || pre.cursor != cursor {
        return obs;
    }
    obs.fit = true;
    // (lines of odd length, word no prefix of `help`:) first a Tab with the *other* command set, which knows no command - it
    // must leave the line alone, and it may not change what the Tab with the real set does next (each call names its own set)
    let word = line.trim_matches(' ');
    if other && !(!word.is_empty() && "help".starts_with(word)) {
        if let Err(e) = s.byte_other_set(b'\t') {
            obs.error = Some(format!("process_byte failed: {:?}", e));
            return obs;
        }
        let mid = s.editor();
        if mid.bytes != line.as_bytes() || mid.cursor != cursor {
            obs.error = Some(format!("Tab with a command set that knows no command changed the line to {:?} (cursor {})", String::from_utf8_lossy(&mid.bytes), mid.cursor));
            return obs;
        }
    }
    if let Err(e) = feed(&mut s, b"\t") {
        obs.error = Some(e);
        return obs;
    }
    let post = s.editor();
    obs.new = post.bytes;
    obs.cursor = post.cursor;
    obs.out = s.out_from(0);
    obs
}

pub fn serve<S: CmdSet>(req: &Value) -> Value {
    match req["kind"].as_str() {
        Some("line") => observe_line::<S>(req["line"].as_str().unwrap_or("")),
        Some("tab") => {
            let o = observe_tab::<S>(
                req["line"].as_str().unwrap_or(""),
                req["cursor"].as_u64().unwrap_or(0) as usize,
                req["cap"].as_u64().unwrap_or(0) as usize,
                req["prompt"].as_u64().unwrap_or(0) as usize,
            );
            json!({"fit": o.fit, "pre_cursor": o.pre_cursor, "new_hex": hex(&o.new), "cursor": o.cursor, "out_hex": hex(&o.out), "error": o.error})
        }
        Some("names") => json!({"names": S::names()}),
        _ => json!({"error": "unknown request kind"}),
    }
}

/// Main loop of a generated crate: `dispatch(decl index, request) -> reply`
pub fn main_loop(dispatch: impl Fn(usize, &Value) -> Value) {
    crate::engine::install_panic_hook();
    let stdin = std::io::stdin();
    let stdout = std::io::stdout();
    let mut out = stdout.lock();
    for line in stdin.lock().lines() {
        let Ok(line) = line else { break };
        if line.is_empty() {
            continue;
        }
        let req: Value = serde_json::from_str(&line).unwrap_or(Value::Null);
        let d = req["d"].as_u64().unwrap_or(0) as usize;
        let reply = match crate::engine::guarded(|| dispatch(d, &req)) {
            Ok(v) => v,
            Err(p) => json!({"panic": p}),
        };
        let _ = writeln!(out, "{}", reply);
        let _ = out.flush();
    }
}

// ------------------------------------------------------------------------------------------------
// client side

use std::process::{Child, ChildStdin, ChildStdout, Command, Stdio};

pub struct GenServer {
    pub path: String,
    child: Child,
    stdin: ChildStdin,
    stdout: std::io::BufReader<ChildStdout>,
}

impl GenServer {
    pub fn start(path: &str) -> Result<Self, String> {
        let mut child = Command::new(path)
            .stdin(Stdio::piped())
            .stdout(Stdio::piped())
            .stderr(Stdio::null())
            .spawn()
            .map_err(|e| format!("cannot start {}: {}", path, e))?;
        let stdin = child.stdin.take().unwrap();
        let stdout = std::io::BufReader::new(child.stdout.take().unwrap());
        Ok(GenServer {
            path: path.to_string(),
            child,
            stdin,
            stdout,
        })
    }

    /// Err = the server died while handling the request (abort, failed precondition, ...)
    pub fn ask(&mut self, req: &Value) -> Result<Value, String> {
        let r = (|| -> Result<Value, String> {
            writeln!(self.stdin, "{}", req).map_err(|e| e.to_string())?;
            self.stdin.flush().map_err(|e| e.to_string())?;
            let mut line = String::new();
            let n = self.stdout.read_line(&mut line).map_err(|e| e.to_string())?;
            if n == 0 {
                return Err("server closed its output".into());
            }
            serde_json::from_str(&line).map_err(|e| e.to_string())
        })();
        if r.is_err() {
            let status = self.child.wait().map(|s| s.to_string()).unwrap_or_default();
            // restart for the next request
            if let Ok(n) = GenServer::start(&self.path) {
                let old = std::mem::replace(self, n);
                drop(old);
            }
            return Err(format!("generated-crate process died while handling the request ({})", status));
        }
        r
    }
}

impl Drop for GenServer {
    fn drop(&mut self) {
        let _ = self.child.kill();
        let _ = self.child.wait();
    }
}
