//! Run a session and report everything observable per op (used by the feature-matrix runner, C16).

use serde_json::{json, Value};

use crate::session::{CmdSet, Config, LArg, Op, Sess};

fn hex(b: &[u8]) -> String {
    b.iter().map(|x| format!("{:02x}", x)).collect()
}

pub fn features() -> Vec<&'static str> {
    let mut f = Vec::new();
    if cfg!(feature = "history") {
        f.push("history");
    }
    if cfg!(feature = "autocomplete") {
        f.push("autocomplete");
    }
    if cfg!(feature = "help") {
        f.push("help");
    }
    f
}

pub fn trace<S: CmdSet>(cfg: &Config, ops: &[Op]) -> Value {
    let (s, _) = Sess::<S>::new(cfg, None);
    let mut s = match s {
        Ok(s) => s,
        Err(e) => return json!({"error": format!("construction failed: {:?}", e)}),
    };
    let mut steps = Vec::new();
    let init = s.out_from(0);
    for op in ops {
        let o0 = s.out_len();
        let c0 = s.calls();
        let pre = s.editor();
        let mut err: Option<String> = None;
        match op {
            Op::Write(calls) => {
                if let Err(e) = s.write(calls) {
                    err = Some(format!("{:?}", e));
                }
            }
            Op::SetPrompt(i) => {
                if let Err(e) = s.set_prompt(*i) {
                    err = Some(format!("{:?}", e));
                }
            }
            _ => {
                for b in op.encode(cfg, s.last_byte) {
                    if let Err(e) = s.byte(b) {
                        err = Some(format!("{:?}", e));
                        break;
                    }
                }
            }
        }
        let ed = s.editor();
        let calls: Vec<Value> = s.proc_.log[c0..]
            .iter()
            .map(|c| {
                json!({
                    "name": hex(&c.name),
                    "args": c.args.iter().map(|a| match a {
                        LArg::DoubleDash => json!("--"),
                        LArg::Long(b) => json!({"long": hex(b)}),
                        LArg::Short(u) => json!({"short": u}),
                        LArg::Value(b) => json!({"value": hex(b)}),
                    }).collect::<Vec<_>>(),
                    "typed": match &c.typed { Ok(d) => json!({"ok": d}), Err(e) => json!({"err": e}) },
                })
            })
            .collect();
        steps.push(json!({
            "pre": hex(&pre.bytes),
            "pre_cursor": pre.cursor,
            "out": hex(&s.out_from(o0)),
            "line": hex(&ed.bytes),
            "cursor": ed.cursor,
            "calls": calls,
            "unflushed": s.sink.borrow().unflushed,
            "prompt": s.prompt(),
            "err": err,
        }));
    }
    json!({"features": features(), "init": hex(&init), "steps": steps})
}

pub fn serve(req: &Value) -> Value {
    let cfg: Config = match serde_json::from_value(req["cfg"].clone()) {
        Ok(c) => c,
        Err(e) => return json!({"error": format!("bad cfg: {}", e)}),
    };
    let ops: Vec<Op> = match serde_json::from_value(req["ops"].clone()) {
        Ok(c) => c,
        Err(e) => return json!({"error": format!("bad ops: {}", e)}),
    };
    match cfg.set.as_str() {
        "enum" => trace::<crate::session::EnumSet>(&cfg, &ops),
        "group" => trace::<crate::session::GroupSet>(&cfg, &ops),
        _ => trace::<crate::session::RawSet>(&cfg, &ops),
    }
}
