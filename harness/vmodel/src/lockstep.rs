//! Lock-step session oracle shared by C01, C05, C06, C13, C15 (and C16 through vsession).
//!
//! One real `Cli` is driven op by op; reference models advance in lock-step. Each property turns on
//! only its own assertions (attribution, DESIGN section 4.4); where another property's domain is
//! touched (recall, completion) the model adopts the observed line and carries on.

use proptest::prelude::*;
use serde_json::{json, Value};
use crate::{
    engine::{fingerprint, pick},
    refs::{collapse_cr, has_token, is_help_request, ref_classify, ref_complete, ref_frame, ref_tokens, Completion, RArg, RefEditor},
    screen::Screen,
    session::{effective, fails_parse, script_text, CmdSet, Config, EnumSet, GroupSet, Op, OutCall, RawSet, Sess, PROMPTS},
};


#[derive(Clone, Copy, Debug, Default)]
pub struct Flags {
    /// C01
    pub dispatch: bool,
    /// C05
    pub editor: bool,
    /// C06
    pub screen: bool,
    /// C13
    pub framing: bool,
    /// C15
    pub flush: bool,
    pub help_on: bool,
    /// C11: every Tab is judged by the completion model on the line and cursor observed just before it
    pub complete: bool,
}

#[derive(Clone, Debug)]
pub struct Case {
    pub cfg: Config,
    pub ops: Vec<Op>,
}

pub fn case_json(c: &Case) -> Value {
    json!({"cfg": c.cfg, "ops": c.ops})
}

pub fn case_from_json(v: &Value) -> Result<Case, String> {
    Ok(Case {
        cfg: serde_json::from_value(v["cfg"].clone()).map_err(|e| e.to_string())?,
        ops: serde_json::from_value(v["ops"].clone()).map_err(|e| e.to_string())?,
    })
}

#[derive(Default)]
pub struct Stats {
    /// (property, fingerprint, sample)
    pub nontrivial: Vec<(&'static str, u64, Option<Value>)>,
    pub classes: Vec<&'static str>,
    pub skipped_unspecified: u64,
    pub inconclusive: Option<String>,
    /// API calls made (input bytes, writes, prompt changes), each followed by the oracle
    pub steps: u64,
    /// samples kept so far, per property (two each)
    sampled: Vec<(&'static str, u8)>,
}

impl Stats {
    fn nt(&mut self, prop: &'static str, fp: u64, sample: impl FnOnce() -> Value) {
        let slot = match self.sampled.iter().position(|x| x.0 == prop) {
            Some(i) => i,
            None => {
                self.sampled.push((prop, 0));
                self.sampled.len() - 1
            }
        };
        let s = if self.sampled[slot].1 < 2 {
            self.sampled[slot].1 += 1;
            Some(sample())
        } else {
            None
        };
        self.nontrivial.push((prop, fp, s));
    }
}

pub type Fail = (String, String);

fn lossy(b: &[u8]) -> String {
    String::from_utf8_lossy(b).to_string()
}

fn text_lines(full: &str) -> Vec<String> {
    // pieces of the output split at LF; a CR before the LF belongs to the line break
    let mut pieces: Vec<String> = full.split('\n').map(|p| p.trim_end_matches('\r').to_string()).collect();
    if full.ends_with('\n') || full.is_empty() {
        pieces.pop();
    }
    pieces
}

fn trimmed(s: &str) -> &str {
    s.trim_end_matches(' ')
}

/// Does any piece of output contain a construct C13 leaves open (lone CR, controls)?
fn output_unspecified(full: &str) -> bool {
    let b = full.as_bytes();
    for i in 0..b.len() {
        if b[i] == b'\r' && b.get(i + 1) != Some(&b'\n') {
            return true;
        }
        if b[i] < 0x20 && b[i] != b'\r' && b[i] != b'\n' {
            return true;
        }
        if b[i] == 0x7F {
            return true;
        }
    }
    false
}

pub fn run_case(c: &Case, f: Flags) -> Result<Stats, Fail> {
    match c.cfg.set.as_str() {
        "enum" => run::<EnumSet>(c, f),
        "group" => run::<GroupSet>(c, f),
        _ => run::<RawSet>(c, f),
    }
}

struct Ctx<'a, S: CmdSet> {
    s: Sess<S>,
    f: Flags,
    cfg: &'a Config,
    ed: RefEditor,
    screen: Screen,
    prompt: &'static str,
    fed: usize,
    stats: Stats,
    /// editing features used since the last Enter (C01 non-triviality)
    used_edit: bool,
}

impl<S: CmdSet> Ctx<'_, S> {
    fn feed_screen(&mut self) {
        let out = self.s.out_from(self.fed);
        self.fed += out.len();
        self.screen.feed(&out);
    }

    /// Checks that apply after every API call that returned Ok.
    fn after_call(&mut self, what: &str) -> Result<(), Fail> {
        self.stats.steps += 1;
        if self.f.flush {
            let un = self.s.sink.borrow().unflushed;
            if un != 0 {
                return Err((
                    format!("after {}: every written byte has been flushed", what),
                    format!("{} bytes written after the last flush", un),
                ));
            }
        }
        self.feed_screen();
        let ev = self.s.editor();
        if self.f.editor && (ev.bytes != self.ed.string().as_bytes() || ev.cursor != self.ed.cursor) {
            return Err((
                format!("after {}: line {:?} cursor {}", what, self.ed.string(), self.ed.cursor),
                format!("line {:?} cursor {}", lossy(&ev.bytes), ev.cursor),
            ));
        }
        if self.f.screen {
            if let Some(why) = &self.screen.inconclusive {
                self.stats.inconclusive = Some(format!("terminal emulator does not implement: {}", why));
                return Ok(());
            }
            if self.screen.bad_utf8 {
                return Err((format!("after {}: sink stream is well-formed UTF-8", what), "ill-formed bytes on the terminal".into()));
            }
            let line = lossy(&ev.bytes);
            let want = format!("{}{}", self.prompt, line);
            let want_col = self.prompt.chars().count() + ev.cursor;
            let got = self.screen.current_line();
            if trimmed(&got) != trimmed(&want) || self.screen.col != want_col {
                return Err((
                    format!("after {}: terminal line {:?} with cursor at column {}", what, want, want_col),
                    format!("terminal line {:?} with cursor at column {}", got, self.screen.col),
                ));
            }
        }
        Ok(())
    }

    fn inside(&self) -> bool {
        let ev = self.s.editor();
        let n = lossy(&ev.bytes).chars().count();
        ev.cursor > 0 && ev.cursor < n
    }

    fn mixed_lengths(&self) -> bool {
        let mut lens = [false; 5];
        for c in self.ed.text.iter() {
            lens[c.len_utf8()] = true;
        }
        lens.iter().filter(|x| **x).count() >= 2
    }
}

fn run<S: CmdSet>(c: &Case, f: Flags) -> Result<Stats, Fail> {
    let cfg = &c.cfg;
    let (s, _st) = Sess::<S>::new(cfg, None);
    let s = s.map_err(|e| ("construction succeeds (working sink)".to_string(), format!("{:?}", e)))?;
    let prompt = if cfg.use_new { "$ " } else { PROMPTS[cfg.prompt % PROMPTS.len()] };
    let mut x = Ctx {
        s,
        f,
        cfg,
        ed: RefEditor::new(cfg.cmd_buf),
        screen: Screen::new(),
        prompt,
        fed: 0,
        stats: Stats::default(),
        used_edit: false,
    };
    x.after_call("construction")?;
    if f.dispatch || f.screen {
        // one prompt, nothing else
        let out = x.s.out_from(0);
        if out != prompt.as_bytes() {
            return Err((format!("construction prints the prompt {:?}", prompt), format!("{:?}", lossy(&out))));
        }
    }

    for (oi, op) in c.ops.iter().enumerate() {
        if x.stats.inconclusive.is_some() {
            break;
        }
        let what = format!("op #{} {:?}", oi, op);
        match op {
            Op::Write(calls) => do_write(&mut x, calls, &what)?,
            Op::SetPrompt(i) => {
                let inside = x.inside();
                let pre = x.s.editor();
                x.s.set_prompt(*i).map_err(|e| (format!("{}: Ok", what), format!("{:?}", e)))?;
                x.prompt = PROMPTS[*i % PROMPTS.len()];
                x.after_call(&what)?;
                if inside {
                    x.stats.nt("C06", fingerprint(&("setprompt", &pre.bytes, pre.cursor, i)), || {
                        json!({"op": "set_prompt with the cursor inside the line", "line": lossy(&pre.bytes), "cursor": pre.cursor, "prompt": PROMPTS[*i % PROMPTS.len()]})
                    });
                }
            }
            Op::Raw(_) => {
                // raw bytes are not modelled here (C02/C03/C04 own them)
                return Err(("lock-step sessions contain no raw ops".into(), what));
            }
            Op::Text(t) => {
                for ch in t.chars() {
                    do_key(&mut x, &Op::Char(ch), &what)?;
                }
            }
            _ => do_key(&mut x, op, &what)?,
        }
    }
    Ok(x.stats)
}

fn do_write<S: CmdSet>(x: &mut Ctx<'_, S>, calls: &[OutCall], what: &str) -> Result<(), Fail> {
    let pre = x.s.editor();
    let inside = x.inside();
    let full = script_text(calls);
    let row0 = x.screen.row;
    let o0 = x.s.out_len();
    let wc0 = x.s.sink.borrow().write_calls;
    x.s.write(calls).map_err(|e| (format!("{}: Ok", what), format!("{:?}", e)))?;
    let out = x.s.out_from(o0);
    let wc = x.s.sink.borrow().write_calls - wc0;
    x.after_call(what)?;
    let post = x.s.editor();
    let unspecified = output_unspecified(&full);
    if x.f.framing {
        if post != pre {
            return Err((
                format!("{}: line {:?} and cursor {} are left intact", what, lossy(&pre.bytes), pre.cursor),
                format!("line {:?} cursor {}", lossy(&post.bytes), post.cursor),
            ));
        }
        if unspecified {
            x.stats.skipped_unspecified += 1;
        } else {
            let (framed, _) = ref_frame(&full);
            let hay = collapse_cr(&out);
            let needle = collapse_cr(&framed);
            if !needle.is_empty() && !hay.windows(needle.len()).any(|w| w == &needle[..]) {
                return Err((
                    format!("{}: the sink receives the text with LF as CR LF and one final line break: {:?}", what, lossy(&needle)),
                    format!("{:?}", lossy(&hay)),
                ));
            }
            if x.screen.inconclusive.is_none() {
                let pieces = text_lines(&full);
                let line = format!("{}{}", x.prompt, lossy(&pre.bytes));
                let mut want: Vec<String> = pieces.clone();
                want.push(line);
                let got: Vec<String> = (row0..=x.screen.row).map(|r| x.screen.line_text(r)).collect();
                let want_t: Vec<&str> = want.iter().map(|s| trimmed(s)).collect();
                let got_t: Vec<&str> = got.iter().map(|s| trimmed(s)).collect();
                let want_col = x.prompt.chars().count() + pre.cursor;
                if want_t != got_t || x.screen.col != want_col {
                    return Err((
                        format!("{}: terminal rows from the edit line on: {:?}, cursor at column {} of the last", what, want, want_col),
                        format!("{:?}, cursor at column {} (row {} of {})", got, x.screen.col, x.screen.row - row0, got.len()),
                    ));
                }
            }
            let lf_inside = full.trim_end_matches('\n').contains('\n');
            let split_crlf = calls.windows(2).any(|w| w[0].text().ends_with('\r') && w[1].text().starts_with('\n'));
            if lf_inside || inside || split_crlf {
                x.stats.nt("C13", fingerprint(&("write", calls, &pre.bytes, pre.cursor)), || {
                    json!({"write": calls, "line": lossy(&pre.bytes), "cursor": pre.cursor})
                });
            }
        }
    }
    if inside {
        x.stats.nt("C06", fingerprint(&("write", &pre.bytes, pre.cursor, full.len())), || {
            json!({"op": "Cli::write with the cursor inside the line", "line": lossy(&pre.bytes), "cursor": pre.cursor, "text": full})
        });
    }
    if wc >= 2 {
        x.stats.nt("C15", fingerprint(&("write", &out)), || json!({"call": "Cli::write", "sink_writes": wc, "bytes": lossy(&out)}));
    }
    Ok(())
}

fn do_key<S: CmdSet>(x: &mut Ctx<'_, S>, op: &Op, what: &str) -> Result<(), Fail> {
    let bytes = op.encode(x.cfg, x.s.last_byte);
    let effect_at = if matches!(op, Op::Enter) { 0 } else { bytes.len() - 1 };
    for (bi, &b) in bytes.iter().enumerate() {
        let pre = x.s.editor();
        let calls0 = x.s.calls();
        let o0 = x.s.out_len();
        let wc0 = x.s.sink.borrow().write_calls;
        let row0 = x.screen.row;
        let inside = x.inside();
        let alt = x.cfg.other_set && matches!(op, Op::Char(_) | Op::Backspace | Op::Left | Op::Right | Op::Up | Op::Down);
        if alt { x.s.byte_other_set(b) } else { x.s.byte(b) }.map_err(|e| (format!("{} byte {:#04x}: Ok", what, b), format!("{:?}", e)))?;
        let out = x.s.out_from(o0);
        let wc = x.s.sink.borrow().write_calls - wc0;
        let new_calls = x.s.proc_.log[calls0..].to_vec();
        if bi != effect_at {
            // no effect expected from this byte at all
            if x.f.dispatch && !new_calls.is_empty() {
                return Err((format!("{} byte {:#04x}: handler not invoked", what, b), format!("{:?}", new_calls)));
            }
            if (x.f.editor || x.f.screen) && (x.s.editor() != pre || !out.is_empty()) {
                return Err((
                    format!("{} byte {:#04x} (part of a longer key encoding): no change, no output", what, b),
                    format!("line {:?} -> {:?}, output {:?}", lossy(&pre.bytes), lossy(&x.s.editor().bytes), lossy(&out)),
                ));
            }
            x.after_call(what)?;
            continue;
        }
        let mut rejected = false;
        match op {
            Op::Char(c) => {
                let mixed = x.mixed_lengths();
                let before = (x.ed.string(), x.ed.cursor);
                if !x.ed.insert(*c) {
                    rejected = true;
                    x.used_edit = true;
                }
                if inside && mixed || rejected {
                    x.stats.nt("C05", fingerprint(&("char", &before, c)), || {
                        json!({"line": before.0, "cursor": before.1, "op": format!("insert {:?}", c), "rejected": rejected, "cmd_buf": x.cfg.cmd_buf})
                    });
                }
                if rejected && inside {
                    x.stats.nt("C06", fingerprint(&("rejected", &pre.bytes, pre.cursor, c)), || {
                        json!({"op": format!("rejected {:?} with the cursor inside", c), "line": lossy(&pre.bytes), "cursor": pre.cursor})
                    });
                }
            }
            Op::Backspace | Op::Left | Op::Right => {
                let mixed = x.mixed_lengths();
                let before = (x.ed.string(), x.ed.cursor);
                match op {
                    Op::Backspace => x.ed.backspace(),
                    Op::Left => x.ed.left(),
                    _ => x.ed.right(),
                };
                x.used_edit = true;
                if inside && mixed {
                    x.stats.nt("C05", fingerprint(&("edit", &before, op)), || json!({"line": before.0, "cursor": before.1, "op": format!("{:?}", op)}));
                }
            }
            Op::Up | Op::Down | Op::Tab => {
                // recall and completion replace the line; their content is C10's / C11's business
                let ev = x.s.editor();
                if x.f.complete && matches!(op, Op::Tab) {
                    judge_completion(x, &pre, &ev, what)?;
                }
                match ev.text() {
                    Some(t) => x.ed.set_with_cursor(t, ev.cursor.min(t.chars().count())),
                    None => return Err((format!("{}: line is well-formed UTF-8", what), format!("{:02x?}", ev.bytes))),
                }
                x.used_edit = true;
                if inside && ev != pre {
                    x.stats.nt("C06", fingerprint(&("replace", &pre.bytes, pre.cursor, &ev.bytes)), || {
                        json!({"op": format!("{:?} with the cursor inside", op), "line": lossy(&pre.bytes), "cursor": pre.cursor, "new_line": lossy(&ev.bytes)})
                    });
                }
            }
            Op::Enter => {
                do_enter(x, &pre.bytes, &new_calls, &out, row0, what)?;
            }
            _ => unreachable!(),
        }
        if !matches!(op, Op::Enter) && x.f.dispatch && !new_calls.is_empty() {
            return Err((format!("{}: only Enter invokes the handler", what), format!("{:?}", new_calls)));
        }
        x.after_call(what)?;
        if wc >= 2 {
            let kind = match op {
                Op::Char(_) => "char",
                Op::Enter => "enter",
                Op::Tab => "tab",
                Op::Up | Op::Down => "recall",
                _ => "edit",
            };
            x.stats.nt("C15", fingerprint(&(kind, &out)), || json!({"call": format!("process_byte ({})", kind), "sink_writes": wc, "bytes": lossy(&out)}));
        }
    }
    Ok(())
}

/// C11 inside a session: what Tab did to the line observed just before it, whatever happened earlier in the session
fn judge_completion<S: CmdSet>(x: &mut Ctx<'_, S>, pre: &crate::session::EditorView, post: &crate::session::EditorView, what: &str) -> Result<(), Fail> {
    let (Some(line), Some(new)) = (pre.text(), post.text()) else {
        return Err((format!("{}: line is well-formed UTF-8 before and after Tab", what), format!("{:02x?} -> {:02x?}", pre.bytes, post.bytes)));
    };
    let mut names = S::names();
    let word = line.trim_matches(' ');
    if x.f.help_on {
        names.push("help".to_string());
    } else if !word.is_empty() && "help".starts_with(word) {
        // completion of prefixes of `help` without the help feature is left open
        x.stats.skipped_unspecified += 1;
        return Ok(());
    }
    let what = format!("{}: Tab on {:?} (cursor {}, {}-byte buffer) with names {:?}", what, line, pre.cursor, x.cfg.cmd_buf, names);
    if new.len() > x.cfg.cmd_buf || !new.starts_with(line.trim_end_matches(' ')) || post.cursor > new.chars().count() {
        return Err((format!("{}: result fits the buffer, keeps the typed non-blank text, cursor within the line", what), format!("{:?} cursor {}", new, post.cursor)));
    }
    match ref_complete(&names, line, pre.cursor, x.cfg.cmd_buf) {
        Completion::Unchanged => {
            if new != line || post.cursor != pre.cursor {
                return Err((format!("{}: line and cursor unchanged", what), format!("{:?} cursor {}", new, post.cursor)));
            }
        }
        Completion::Exactly(e) => {
            if new != e {
                return Err((format!("{}: line becomes {:?}", what, e), format!("{:?}", new)));
            }
            let fp = fingerprint(&("tab", line, pre.cursor, x.cfg.cmd_buf, x.s.calls()));
            let (l, c) = (line.to_string(), pre.cursor);
            x.stats.nt("C11", fp, || json!({"op": "Tab inside a session", "line": l, "cursor": c, "result": e}));
        }
        Completion::OneOf { allowed, or_unchanged } => {
            if !(allowed.iter().any(|a| a == new) || (or_unchanged && new == line)) {
                return Err((format!("{}: line becomes one of {:?}{}", what, allowed, if or_unchanged { " or stays unchanged" } else { "" }), format!("{:?}", new)));
            }
        }
    }
    Ok(())
}

fn do_enter<S: CmdSet>(
    x: &mut Ctx<'_, S>,
    pre_line: &[u8],
    new_calls: &[crate::session::Call],
    out: &[u8],
    row0: usize,
    what: &str,
) -> Result<(), Fail> {
    let line = match core::str::from_utf8(pre_line) {
        Ok(l) => l.to_string(),
        Err(_) => return Err((format!("{}: line is well-formed UTF-8", what), format!("{:02x?}", pre_line))),
    };
    let tokens = ref_tokens(&line);
    let script_idx = x.s.calls() - new_calls.len();
    let mut new_prompt = x.prompt;
    let mut script: Option<Vec<OutCall>> = None;
    if let Some(call) = new_calls.first() {
        if call.typed.is_ok() && !x.cfg.scripts.is_empty() {
            let sc = x.cfg.scripts[script_idx % x.cfg.scripts.len()].clone();
            for c in effective(&sc) {
                if let OutCall::SetPrompt(i) = c {
                    new_prompt = PROMPTS[*i % PROMPTS.len()];
                }
            }
            script = Some(sc);
        }
    }
    let help = |t: &[String]| if x.f.help_on { is_help_request(t) } else { Some(false) };

    if x.f.dispatch {
        match &tokens {
            Some(t) => {
                let want_call = if t.is_empty() { Some(false) } else { help(t).map(|h| !h) };
                match want_call {
                    None => x.stats.skipped_unspecified += 1,
                    Some(false) => {
                        if !new_calls.is_empty() {
                            return Err((
                                format!("{}: line {:?} ({}) does not reach the handler", what, line, if t.is_empty() { "no token" } else { "help request" }),
                                format!("{:?}", new_calls),
                            ));
                        }
                    }
                    Some(true) => {
                        let exp_args = ref_classify(&t[1..]);
                        let got_args: Option<Vec<RArg>> = new_calls.first().and_then(|c| c.args.iter().map(|a| a.to_ref()).collect());
                        if new_calls.len() != 1 || new_calls[0].name != t[0].as_bytes() || got_args.as_ref() != Some(&exp_args) {
                            return Err((
                                format!("{}: exactly one invocation with name {:?} and arguments {:?} for the line {:?}", what, t[0], exp_args, line),
                                format!("{} invocation(s): {:?}", new_calls.len(), new_calls),
                            ));
                        }
                        if x.used_edit {
                            let sizes = (x.cfg.cmd_buf, x.cfg.hist_buf);
                            x.stats.nt("C01", fingerprint(&(&line, sizes)), || json!({"line": line, "cmd_buf": sizes.0, "hist_buf": sizes.1, "dispatched": t}));
                        }
                    }
                }
            }
            None => {
                // the line touches an escape C07 leaves open: the handler must see one of the readings
                x.stats.skipped_unspecified += 1;
                match expected_dispatch(&line, x.f.help_on) {
                    Dispatch::Unspecified => {}
                    d => check_dispatch(&d, new_calls, what, &line)?,
                }
            }
        }
    }
    x.ed.clear();
    x.prompt = new_prompt;
    x.used_edit = false;

    if x.f.dispatch || x.f.framing {
        // one fresh prompt: the output of this call starts with a line break and ends with the prompt
        if !out.starts_with(b"\r\n") || !out.ends_with(x.prompt.as_bytes()) {
            return Err((
                format!("{}: output starts with CR LF and ends with the prompt {:?}", what, x.prompt),
                format!("{:?}", lossy(out)),
            ));
        }
    }
    if x.f.dispatch {
        let ev = x.s.editor();
        if !ev.bytes.is_empty() || ev.cursor != 0 {
            return Err((format!("{}: afterwards the line is empty", what), format!("line {:?} cursor {}", lossy(&ev.bytes), ev.cursor)));
        }
        // screen: the prompt alone on a fresh last row
        let mut sc = x.screen.fork();
        sc.feed(out);
        if sc.inconclusive.is_none() {
            let fresh = sc.row > row0 && sc.is_last_row();
            if !fresh || trimmed(&sc.current_line()) != trimmed(x.prompt) || sc.col != x.prompt.chars().count() {
                return Err((
                    format!("{}: one fresh prompt {:?} on a new last row, cursor after it", what, x.prompt),
                    format!("row {} (was {}), line {:?}, column {}, rows: {:?}", sc.row, row0, sc.current_line(), sc.col, &sc.all_lines()[row0..]),
                ));
            }
        }
    }
    if x.f.framing {
        if let (Some(sc_calls), Some(t)) = (&script, &tokens) {
            let full = script_text(sc_calls);
            if output_unspecified(&full) || help(t) != Some(false) {
                x.stats.skipped_unspecified += 1;
            } else {
                let (framed, _) = ref_frame(&full);
                let mut want = b"\r\n".to_vec();
                want.extend_from_slice(&framed);
                // a handler that printed something and then rejected the command: the library's own `error:` line follows
                // the (completed) handler output, on a line of its own
                let rejected = fails_parse(sc_calls);
                let mut got_out = collapse_cr(out);
                let mut error_row: Option<String> = None;
                if rejected {
                    let head = collapse_cr(&want);
                    let tail_ok = got_out.starts_with(&head) && got_out.ends_with(x.prompt.as_bytes());
                    let mid = if tail_ok { got_out[head.len()..got_out.len() - x.prompt.len()].to_vec() } else { vec![] };
                    let mid_s = lossy(&mid);
                    if !tail_ok || !mid_s.starts_with("error:") || !mid_s.ends_with("\r\n") || mid_s.trim_end_matches("\r\n").contains('\n') {
                        return Err((
                            format!("{}: the sink receives {:?}, then one `error:` line of the library, then the prompt", what, lossy(&head)),
                            format!("{:?}", lossy(&got_out)),
                        ));
                    }
                    error_row = Some(mid_s.trim_end_matches("\r\n").to_string());
                    got_out = head.clone();
                    got_out.extend_from_slice(x.prompt.as_bytes());
                }
                want.extend_from_slice(x.prompt.as_bytes());
                if got_out != collapse_cr(&want) {
                    return Err((
                        format!("{}: between the submitted line and the next prompt the sink receives {:?}", what, lossy(&collapse_cr(&want))),
                        format!("{:?}", lossy(&collapse_cr(out))),
                    ));
                }
                let mut scn = x.screen.fork();
                scn.feed(out);
                if scn.inconclusive.is_none() {
                    let mut want_rows = text_lines(&full);
                    if let Some(e) = error_row {
                        want_rows.push(e);
                    }
                    want_rows.push(x.prompt.to_string());
                    let got: Vec<String> = (row0 + 1..=scn.row).map(|r| scn.line_text(r)).collect();
                    let w: Vec<&str> = want_rows.iter().map(|s| trimmed(s)).collect();
                    let g: Vec<&str> = got.iter().map(|s| trimmed(s)).collect();
                    if w != g {
                        return Err((format!("{}: terminal rows below the submitted line: {:?}", what, want_rows), format!("{:?}", got)));
                    }
                }
                let lf_inside = full.trim_end_matches('\n').contains('\n');
                let split_crlf = effective(sc_calls).windows(2).any(|w| w[0].text().ends_with('\r') && w[1].text().starts_with('\n'));
                if lf_inside || split_crlf {
                    x.stats.nt("C13", fingerprint(&("handler", sc_calls)), || json!({"handler_output": sc_calls, "line": line}));
                }
            }
        }
    }
    Ok(())
}

// ------------------------------------------------------------------------------------------------
// generators

pub fn size_strategy() -> impl Strategy<Value = usize> {
    prop_oneof![
        1 => Just(0usize),
        2 => Just(1usize),
        2 => Just(2usize),
        2 => Just(3usize),
        3 => Just(4usize),
        3 => Just(6usize),
        3 => Just(8usize),
        3 => Just(12usize),
        3 => Just(16usize),
        3 => Just(32usize),
        2 => Just(64usize),
        8 => 0usize..=64,
    ]
}

/// Texts for application output (C13): printable, LF, CR LF, empty, multi-byte; a CR only ever
/// appears directly before an LF (possibly across two calls).
pub fn out_calls_strategy(allow_set_prompt: bool) -> impl Strategy<Value = Vec<OutCall>> {
    let units: Vec<&'static str> = vec!["", "x", "ok", "line one", "é", "Жук ₿", "\n", "\n", "\r\n", "a b  ", "-", "  ", "\n\n", "tail"];
    let short = proptest::collection::vec(any::<u16>(), 0..4).prop_map(move |sel| sel.into_iter().map(|s| pick(&units, s)).collect::<Vec<_>>().concat());
    // now and then one long piece whose size (with every LF counted twice, as it goes out) lies around a multiple of 64:
    // a writer that assembles its output in chunks must keep its end-of-line state right at every chunk size
    let long = (prop_oneof![60usize..=68, 124usize..=132, 188usize..=196, 252usize..=260, 508usize..=516], 0u8..4).prop_map(|(n, shape)| {
        let mut t = String::new();
        match shape {
            0 => t.push_str(&"x".repeat(n)),
            1 => {
                t.push_str(&"y".repeat(n.saturating_sub(2)));
                t.push('\n');
            }
            2 => {
                t.push_str("head ");
                t.push_str(&"z".repeat(n.saturating_sub(7)));
                t.push('\n');
            }
            _ => {
                while t.len() + 2 * t.matches('\n').count() < n {
                    if t.len() % 17 == 16 {
                        t.push('\n');
                    } else {
                        t.push('w');
                    }
                }
            }
        }
        t
    });
    let text = prop_oneof![24 => short, 1 => long].boxed();
    let call = (0u8..18, text.clone(), text, 0usize..5, any::<bool>(), any::<u16>()).prop_map(move |(k, a, b, p, split, chs)| {
        let mut a = a;
        if split {
            a.push('\r'); // fixed up below unless the next call starts with LF
        }
        let ch = pick(&['x', '#', '\n', 'é', '₿', ' ', '.'], chs);
        match k {
            0..=3 => OutCall::WriteStr(a),
            4..=5 => OutCall::WritelnStr(a),
            6 => OutCall::Uwrite(a),
            7..=8 => OutCall::Fmt(a.replace('\r', ""), b),
            9 => OutCall::UwriteChar(ch),
            13 | 14 => OutCall::FmtLit((chs % 5) as u8),
            // the formatting helpers of Writer: their text (see `session::rendered`) is framed like any other
            15 | 16 => OutCall::ListElement(pick(&["", "x", "uart", "é", "имя", "a\nb"], chs).to_string(), b.replace('\r', ""), (chs % 13) as usize),
            17 => OutCall::Title(b.replace('\r', "")),
            10 => OutCall::FmtChar(ch),
            11 => {
                // handler only: print, then reject the command
                if allow_set_prompt && p < 2 {
                    OutCall::FailParse
                } else {
                    OutCall::UwriteChar(ch)
                }
            }
            _ => {
                if allow_set_prompt {
                    OutCall::SetPrompt(p)
                } else {
                    OutCall::WriteStr(a)
                }
            }
        }
    });
    proptest::collection::vec(call, 0..=5).prop_map(fix_lone_cr)
}

/// Remove every CR that is not directly followed by an LF in the concatenated output
fn fix_lone_cr(mut calls: Vec<OutCall>) -> Vec<OutCall> {
    loop {
        let full = script_text(&calls);
        let b = full.as_bytes();
        let Some(pos) = (0..b.len()).find(|&i| b[i] == b'\r' && b.get(i + 1) != Some(&b'\n')) else {
            return calls;
        };
        // locate the call holding byte `pos` and delete it there
        let mut off = 0;
        for c in calls.iter_mut() {
            let t = c.text();
            if pos < off + t.len() {
                let rel = pos - off;
                let strip = |s: &mut String, rel: usize| {
                    if rel < s.len() && s.as_bytes()[rel] == b'\r' {
                        s.remove(rel);
                        true
                    } else {
                        false
                    }
                };
                let done = match c {
                    OutCall::WriteStr(s) | OutCall::Uwrite(s) | OutCall::WritelnStr(s) => strip(s, rel),
                    OutCall::Fmt(a, bb) => {
                        if rel < a.len() {
                            strip(a, rel)
                        } else {
                            strip(bb, rel - a.len() - 1)
                        }
                    }
                    OutCall::SetPrompt(_) | OutCall::UwriteChar(_) | OutCall::FmtChar(_) | OutCall::FailParse | OutCall::ListElement(..) | OutCall::Title(_) | OutCall::FmtLit(_) => false,
                };
                if !done {
                    // could not locate it (should not happen): drop all CRs of this call
                    match c {
                        OutCall::WriteStr(s) | OutCall::Uwrite(s) | OutCall::WritelnStr(s) => *s = s.replace('\r', ""),
                        OutCall::Fmt(a, bb) => {
                            *a = a.replace('\r', "");
                            *bb = bb.replace('\r', "");
                        }
                        OutCall::SetPrompt(_) | OutCall::UwriteChar(_) | OutCall::FmtChar(_) | OutCall::FailParse | OutCall::ListElement(..) | OutCall::Title(_) | OutCall::FmtLit(_) => {}
                    }
                }
                break;
            }
            off += t.len();
        }
    }
}

#[derive(Clone, Copy, Debug)]
pub struct GenOpts {
    pub writes: u32,
    pub set_prompts: u32,
    pub scripts: bool,
    pub max_ops: usize,
    pub quotes: bool,
}

pub fn op_strategy(o: GenOpts) -> impl Strategy<Value = Op> {
    // letters, blanks, dashes, and width-1 characters whose encodings sit on the boundaries of each UTF-8 length
    // (lead bytes C2, DF, E0, E1, EF, F0, F4)
    let mut chars = vec![
        'a', 'b', 'g', 'e', 't', 'x', 'h', 'l', 'p', 's', ' ', ' ', '-', '-', 'é', 'Ж', 'г', '₿', '𝄞', '1', '5', '¡', 'ߪ', 'ࠀ', 'ก', 'က', '\u{fffd}', '𐀀', '\u{10fffd}', 'à', 'х', 'Р',
        // blanks other than U+0020 (no-break space, em space): ordinary characters of width 1 for the editor, the tokeniser and Tab
        '\u{a0}', '\u{2003}',
    ];
    if o.quotes {
        chars.extend(['"', '"', '\\']);
    }
    let texts = vec![
        "get-led ", "get-adc", "help", "help ", "set ", "--verbose", " -v", " -h", " --help", "exit", "net up ", "эхо ", "go-to ", "hello", "--", " 1", "ge", "ex", "he", "-n 5 ", "-- -x", "с", "ст", "сто", "стар", "a", "at", "-- -h", "hello ", "secret-cmd", "net iface ", "mtu 9 ", "HELP", "Help ", "--HELP", "-H", "hElp get-led",
    ];
    prop_oneof![
        40 => any::<u16>().prop_map(move |s| Op::Char(pick(&chars, s))),
        8 => any::<u16>().prop_map(move |s| Op::Text(pick(&texts, s).to_string())),
        10 => Just(Op::Enter),
        8 => Just(Op::Backspace),
        10 => Just(Op::Left),
        5 => Just(Op::Right),
        6 => Just(Op::Up),
        3 => Just(Op::Down),
        5 => Just(Op::Tab),
        o.writes => out_calls_strategy(false).prop_map(Op::Write),
        o.set_prompts => (0usize..5).prop_map(Op::SetPrompt),
    ]
}

pub fn case_strategy(o: GenOpts, sets: &'static [&'static str]) -> impl Strategy<Value = Case> {
    let scripts = if o.scripts {
        proptest::collection::vec(out_calls_strategy(true), 0..3).boxed()
    } else {
        Just(Vec::<Vec<OutCall>>::new()).boxed()
    };
    (
        size_strategy(),
        size_strategy(),
        0usize..5,
        any::<u16>(),
        scripts,
        (any::<bool>(), 0u8..4, 0u8..10, 0u8..10),
        proptest::collection::vec(op_strategy(o), 0..=o.max_ops),
    )
        .prop_map(move |(cb, hb, p, set, scripts, (sw, es, un, ap), ops)| Case {
            cfg: Config {
                cmd_buf: cb,
                hist_buf: hb,
                prompt: p,
                set: pick(sets, set).to_string(),
                scripts,
                short_writes: sw,
                enter_style: es,
                use_new: un == 0,
                arrow_params: ap == 0,
                other_set: ap == 1 || un == 1,
            },
            ops,
        })
        .prop_flat_map(move |c| {
            // one session in 100 works on a long line in a large buffer: distances, lengths and counts beyond 255
            let normal = Just(c.clone());
            let long = (
                prop_oneof![Just(300usize), Just(520), Just(700)],
                prop_oneof![Just(0usize), Just(64), Just(600)],
                prop_oneof![250usize..=262, 505usize..=518],
                prop_oneof![Just(0usize), Just(3), 250usize..=262, 505usize..=518],
                proptest::collection::vec(op_strategy(o), 1..8),
            )
                .prop_map(move |(cb, hb, len, lefts, tail)| {
                    let mut c = c.clone();
                    c.cfg.cmd_buf = cb;
                    c.cfg.hist_buf = hb;
                    let mut line = String::from("x ");
                    let fill = ['a', 'b', ' ', 'é', 'c', 'd', '₿', 'e'];
                    let mut k = 0;
                    while line.chars().count() < len {
                        line.push(fill[k % fill.len()]);
                        k += 1;
                    }
                    let mut ops = vec![Op::Text(line)];
                    ops.extend(std::iter::repeat(Op::Left).take(lefts));
                    ops.extend(tail);
                    ops.push(Op::Enter);
                    ops.push(Op::Up);
                    ops.extend(std::iter::repeat(Op::Left).take(lefts.min(300)));
                    ops.push(Op::SetPrompt(3));
                    ops.push(Op::Char('q'));
                    c.ops = ops;
                    c
                });
            prop_oneof![99 => normal, 1 => long]
        })
}

/// Several completions on one Cli: what Tab does depends on the line and the cursor in front of it, not on what was
/// completed, typed, erased, submitted or recalled before. Rounds: erase the line and type a word (then move left) and press
/// Tab; or recall with Up and press Tab; or submit.
pub fn tab_session_strategy(with_api: bool) -> impl Strategy<Value = Case> {
    let words = vec![
        "g", "ge", "get", "get-", "get-l", "get-a", "e", "ex", "exi", "exit", "s", "se", "set", "set ", "n", "ne", "net", "h", "he", "hel", "help", "э", "эх", "go", "go-", "hell", "hello", "с", "ст", "сто", "ста", "a", "at", "x", "sec", "c", "con",
    ];
    // with_api: what the application or the user does right after a completion (output, prompt change, an edit)
    let after = prop_oneof![
        6 => Just(None),
        2 => out_calls_strategy(false).prop_map(|c| Some(Op::Write(c))),
        1 => (0usize..5).prop_map(|p| Some(Op::SetPrompt(p))),
        1 => Just(Some(Op::Backspace)),
        1 => Just(Some(Op::Char('x'))),
        1 => Just(Some(Op::Left)),
    ];
    let round = (0u8..10, any::<u16>(), 0usize..2, 0usize..3, 0usize..4, after);
    (
        prop_oneof![Just("enum"), Just("group"), Just("group")],
        prop_oneof![Just(4usize), Just(5), Just(6), Just(7), Just(8), Just(10), Just(12), Just(16), Just(32)],
        prop_oneof![Just(0usize), Just(16), Just(48)],
        0usize..5,
        proptest::collection::vec(round, 1..6),
    )
        .prop_map(move |(set, cap, hist, prompt, rounds)| {
            let mut ops: Vec<Op> = Vec::new();
                        for (i, (kind, w, lead, trail, lefts, after)) in rounds.into_iter().enumerate() {
                match kind {
                    0 if i > 0 => {
                        ops.push(Op::Up);
                        ops.push(Op::Tab);
                    }
                    1 if i > 0 => ops.push(Op::Enter),
                    _ => {
                        if i > 0 {
                            // erase whatever the line holds
                            for _ in 0..12 {
                                ops.push(Op::Right);
                            }
                            for _ in 0..24 {
                                ops.push(Op::Backspace);
                            }
                        }
                        // (one line in eight ends in a blank that is not U+0020: an ordinary character to everything)
                        let tail = match w % 16 {
                            7 => format!("\u{a0}{}", " ".repeat(trail)),
                            11 => format!("{}\u{2003}", " ".repeat(trail)),
                            _ => " ".repeat(trail),
                        };
                        ops.push(Op::Text(format!("{}{}{}", " ".repeat(lead), pick(&words, w), tail)));
                        for _ in 0..lefts {
                            ops.push(Op::Left);
                        }
                        ops.push(Op::Tab);
                        if with_api {
                            if let Some(a) = after {
                                ops.push(a);
                            }
                        }
                    }
                }
            }
            Case {
                cfg: Config {
                    cmd_buf: cap,
                    hist_buf: hist,
                    prompt,
                    set: set.to_string(),
                    ..Default::default()
                },
                ops,
            }
        })
}


// ------------------------------------------------------------------------------------------------
// glue used by the per-property checks

use crate::engine::{Failure, ShardCtx, Verdict};

pub fn run_lockstep_shard(
    ctx: &ShardCtx,
    sub: &'static str,
    prop: &'static str,
    total: u64,
    opts: GenOpts,
    sets: &'static [&'static str],
    flags: Flags,
) {
    run_lockstep_shard_with(ctx, sub, prop, total, case_strategy(opts, sets), flags);
    // sessions built around completions (word, blanks, cursor moved back, Tab) followed by output, a prompt change or an
    // edit: the states a completion leaves behind are rare in the general sessions
    run_lockstep_shard_with(ctx, sub, prop, total / 6, tab_session_strategy(true), flags);
    run_marathon(ctx, sub, prop, case_strategy(opts, sets), flags, ctx.tier.pick(1_500_000, 10_000_000));
}

/// One session per shard that goes on for `target` key and API operations (the operations of many generated sessions, one
/// after the other on the Cli of the first): "of any length" - whatever counts keys, lines, output bytes or history entries
/// in 16 bits, or drifts a little with every line, shows only there. A failure is cut down to the prefix that fails and then
/// by dropping leading halves while it still fails (a session of this size is not shrunk op by op).
pub fn run_marathon<S: Strategy<Value = Case>>(ctx: &ShardCtx, sub: &'static str, prop: &'static str, strat: S, flags: Flags, target: usize) {
    use proptest::strategy::ValueTree;
    use proptest::test_runner::{Config as PConfig, RngSeed, TestRunner};
    if ctx.failed() {
        return;
    }
    let seed = u64::from_le_bytes(crate::engine::mix_seed(ctx.seed, &[&ctx.property, sub, "marathon"], ctx.shard)[..8].try_into().unwrap());
    let mut runner = TestRunner::new(PConfig { rng_seed: RngSeed::Fixed(seed), failure_persistence: None, ..PConfig::default() });
    let mut case: Option<Case> = None;
    while case.as_ref().map(|c| c.ops.len()).unwrap_or(0) < target {
        let Ok(tree) = strat.new_tree(&mut runner) else { break };
        let c = tree.current();
        match &mut case {
            // (the long-line sessions need their own buffers; the marathon keeps the buffers of its first session)
            Some(m) => {
                if c.cfg.cmd_buf < 200 {
                    m.ops.extend(c.ops)
                }
            }
            None => {
                if c.cfg.cmd_buf < 200 {
                    case = Some(c)
                }
            }
        }
    }
    let Some(mut c) = case else { return };
    let t0 = std::time::Instant::now();
    ctx.count_eval();
    if ctx.trace_file.is_some() {
        ctx.trace(&json!({"check": sub, "case": case_json(&c)}));
    }
    let verdict = |c: &Case| match crate::engine::guarded(|| run_case(c, flags)) {
        Ok(r) => r,
        Err(p) => Err(("no panic".to_string(), p)),
    };
    match verdict(&c) {
        Ok(stats) => {
            if let Some(i) = stats.inconclusive {
                ctx.inconclusive(i);
            }
            ctx.count_evals(stats.steps);
            ctx.class_n("api calls checked", stats.steps);
            ctx.class_n("marathon:operations in one session", c.ops.len() as u64);
            ctx.class("marathon:sessions");
            if std::env::var("VERIF_TIMING").is_ok() {
                eprintln!("marathon shard {}: {} ops in {:?}", ctx.shard, c.ops.len(), t0.elapsed());
            }
            for (p, fp, sample) in stats.nontrivial {
                if p == prop {
                    ctx.nontrivial(fp, || sample.unwrap_or(Value::Null));
                }
            }
        }
        Err((mut e, mut o)) => {
            // the prefix that fails
            if let Some(n) = e.split("op #").nth(1).and_then(|t| t.split(|ch: char| !ch.is_ascii_digit()).next()).and_then(|t| t.parse::<usize>().ok()) {
                let mut cut = c.clone();
                cut.ops.truncate(n + 1);
                if let Err((e2, o2)) = verdict(&cut) {
                    c = cut;
                    e = e2;
                    o = o2;
                }
            }
            for _ in 0..16 {
                if c.ops.len() < 8 {
                    break;
                }
                let mut half = c.clone();
                half.ops.drain(..c.ops.len() / 2);
                match verdict(&half) {
                    Err((e2, o2)) => {
                        c = half;
                        e = e2;
                        o = o2;
                    }
                    Ok(_) => break,
                }
            }
            ctx.fail(Failure::new(sub, case_json(&c), format!("{} (one session of many operations)", e), o));
        }
    }
}

pub fn run_lockstep_shard_with<S: Strategy<Value = Case>>(ctx: &ShardCtx, sub: &'static str, prop: &'static str, total: u64, strat: S, flags: Flags) {
    ctx.run_prop(sub, total, strat, case_json, |c| match run_case(c, flags) {
        Ok(stats) => {
            if let Some(i) = stats.inconclusive {
                ctx.inconclusive(i);
            }
            for _ in 0..stats.skipped_unspecified {
                ctx.skipped();
            }
            // an evaluation = one API call followed by the oracle (the session itself was counted by run_prop)
            ctx.count_evals(stats.steps);
            ctx.class_n("api calls checked", stats.steps);
            ctx.class(match c.cfg.set.as_str() {
                "enum" => "sessions:derived enum",
                "group" => "sessions:derived group",
                _ => "sessions:raw commands",
            });
            if c.cfg.cmd_buf <= 4 {
                ctx.class("sessions:cmd_buf<=4");
            }
            let mut any = false;
            for (p, fp, sample) in stats.nontrivial {
                if p == prop {
                    any = true;
                    ctx.nontrivial(fp, || sample.unwrap_or_else(|| json!({"session": case_json(c)})));
                }
            }
            if any {
                ctx.class("sessions:with a non-trivial event");
            }
            Ok(())
        }
        Err((e, o)) => Err(Failure::new(sub, Value::Null, e, o)),
    });
}

pub fn replay_lockstep(sub: &str, case: &Value, flags: Flags) -> Verdict {
    let c = case_from_json(case).map_err(|e| Failure::new(sub, case.clone(), "a well-formed case", e))?;
    run_case(&c, flags).map(|_| ()).map_err(|(e, o)| Failure::new(sub, case.clone(), e, o))
}

// ------------------------------------------------------------------------------------------------
// dispatch expectation, reusable outside the lock-step loop (C14 suffixes)

pub enum Dispatch {
    /// handler must not be invoked
    None,
    /// exactly one invocation with this name and these arguments
    Exactly(String, Vec<RArg>),
    /// exactly one invocation, content left open
    One,
    /// the line touches escapes the quoting rules leave open: each reading of them gives one allowed outcome
    /// (None = no invocation, Some = exactly one invocation with this name and these arguments)
    AnyOf(Vec<Option<(String, Vec<RArg>)>>),
    /// left open
    Unspecified,
}

pub fn expected_dispatch(line: &str, help_on: bool) -> Dispatch {
    match ref_tokens(line) {
        Some(t) => {
            if t.is_empty() {
                return Dispatch::None;
            }
            let h = if help_on { is_help_request(&t) } else { Some(false) };
            match h {
                None => Dispatch::Unspecified,
                Some(true) => Dispatch::None,
                Some(false) => Dispatch::Exactly(t[0].clone(), ref_classify(&t[1..])),
            }
        }
        None => {
            // every reading of the open escapes (`\c` = c or \c, a dangling backslash = nothing or \) is tokenised and
            // classified; the handler must see one of them
            let Some(pats) = crate::refs::ref_token_patterns(line) else { return Dispatch::Unspecified };
            let open: usize = pats.iter().map(|t| t.iter().filter(|p| !matches!(p, crate::refs::Pc::Lit(_))).count()).sum();
            if open > 6 {
                return if has_token(line) && !(help_on && line.contains('h')) { Dispatch::One } else { Dispatch::Unspecified };
            }
            let mut alts: Vec<Option<(String, Vec<RArg>)>> = Vec::new();
            for mask in 0..(1u32 << open) {
                let mut k = 0;
                let toks: Vec<String> = pats
                    .iter()
                    .map(|t| {
                        let mut o = String::new();
                        for p in t {
                            match p {
                                crate::refs::Pc::Lit(c) => o.push(*c),
                                crate::refs::Pc::Esc(c) => {
                                    if mask >> k & 1 == 1 {
                                        o.push('\\');
                                    }
                                    o.push(*c);
                                    k += 1;
                                }
                                crate::refs::Pc::Dangling => {
                                    if mask >> k & 1 == 1 {
                                        o.push('\\');
                                    }
                                    k += 1;
                                }
                            }
                        }
                        o
                    })
                    .collect();
                let alt = if toks.is_empty() {
                    None
                } else {
                    match if help_on { is_help_request(&toks) } else { Some(false) } {
                        None => return Dispatch::Unspecified,
                        Some(true) => None,
                        Some(false) => Some((toks[0].clone(), ref_classify(&toks[1..]))),
                    }
                };
                if !alts.contains(&alt) {
                    alts.push(alt);
                }
            }
            Dispatch::AnyOf(alts)
        }
    }
}

pub fn check_dispatch(d: &Dispatch, new_calls: &[crate::session::Call], what: &str, line: &str) -> Result<(), Fail> {
    match d {
        Dispatch::Unspecified => Ok(()),
        Dispatch::None => {
            if new_calls.is_empty() {
                Ok(())
            } else {
                Err((format!("{}: line {:?} does not reach the handler", what, line), format!("{:?}", new_calls)))
            }
        }
        Dispatch::One => {
            if new_calls.len() == 1 {
                Ok(())
            } else {
                Err((format!("{}: exactly one invocation for the line {:?}", what, line), format!("{} invocations", new_calls.len())))
            }
        }
        Dispatch::AnyOf(alts) => {
            let got: Option<(Vec<u8>, Option<Vec<RArg>>)> = new_calls.first().map(|c| (c.name.clone(), c.args.iter().map(|a| a.to_ref()).collect()));
            let ok = match (&got, new_calls.len()) {
                (None, 0) => alts.contains(&None),
                (Some((name, Some(args))), 1) => alts.iter().flatten().any(|(n, a)| n.as_bytes() == &name[..] && a == args),
                _ => false,
            };
            if ok {
                Ok(())
            } else {
                Err((
                    format!("{}: the line {:?} touches open escapes; each reading of them allows one of {:?} (None = no invocation)", what, line, alts),
                    format!("{} invocation(s): {:?}", new_calls.len(), new_calls),
                ))
            }
        }
        Dispatch::Exactly(name, args) => {
            let got_args: Option<Vec<RArg>> = new_calls.first().and_then(|c| c.args.iter().map(|a| a.to_ref()).collect());
            if new_calls.len() != 1 || new_calls[0].name != name.as_bytes() || got_args.as_ref() != Some(args) {
                return Err((
                    format!("{}: exactly one invocation with name {:?} and arguments {:?} for the line {:?}", what, name, args, line),
                    format!("{} invocation(s): {:?}", new_calls.len(), new_calls),
                ));
            }
            Ok(())
        }
    }
}
