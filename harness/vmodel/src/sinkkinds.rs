//! The lock-step sessions run on one kind of sink (a handle with a pointer in it), one kind of buffer (the harness's
//! `OwnedBuf`) and one order of builder calls. Here the same generated sessions run on other *shapes* of the public API:
//! a zero-sized sink (the usual shape of a microcontroller's serial handle: `struct Uart;` writing to a peripheral), a sink
//! padded to 512 bytes, `&mut` of a sink; `[u8; N]` arrays, `&mut [u8]` slices and the builder's default buffers; builder
//! calls in other orders; `Cli::new`. Sink state lives in a thread-local.
//!
//! Three things are judged, each by the check whose property it is:
//!  * C15: when a call returns, every byte it wrote has been followed by a flush - on every shape (`Diff::Flush`);
//!  * C01: what the handler receives does not depend on the shape (`Diff::Dispatch`);
//!  * C06: what a terminal displays (emulator fed with the bytes) does not depend on the shape (`Diff::Display`).
//! The first shape uses the buffers and the builder order of the lock-step sessions, whose verdicts the other shapes inherit
//! by being indistinguishable from it. How bytes are split over `write` calls and where flushes fall may differ.
use std::cell::RefCell;

use embedded_cli::{
    buffer::Buffer,
    cli::{Cli, CliBuilder, CliHandle},
    command::RawCommand,
    service::{CommandProcessor, FromRaw, ProcessError},
};

use crate::{
    lockstep::Case,
    screen::Screen,
    session::{script_text, Base, Op, OwnedBuf, PROMPTS},
};

#[derive(Clone, Copy, Debug, PartialEq, Eq)]
pub enum Diff {
    Flush,
    Dispatch,
    Display,
}

#[derive(Default)]
pub struct SinkLog {
    pub written: usize,
    pub unflushed: usize,
    pub flushes: usize,
    pub bytes: Vec<u8>,
    pub dispatches: Vec<String>,
}

thread_local! {
    pub static LOG: RefCell<SinkLog> = RefCell::new(SinkLog::default());
}

fn on_write(buf: &[u8]) {
    LOG.with(|l| {
        let mut l = l.borrow_mut();
        l.written += buf.len();
        l.unflushed += buf.len();
        l.bytes.extend_from_slice(buf);
    });
}
fn on_flush() {
    LOG.with(|l| {
        let mut l = l.borrow_mut();
        l.unflushed = 0;
        l.flushes += 1;
    });
}

/// zero-sized
pub struct Uart;
impl embedded_io::ErrorType for Uart {
    type Error = core::convert::Infallible;
}
impl embedded_io::Write for Uart {
    fn write(&mut self, buf: &[u8]) -> Result<usize, Self::Error> {
        on_write(buf);
        Ok(buf.len())
    }
    fn flush(&mut self) -> Result<(), Self::Error> {
        on_flush();
        Ok(())
    }
}

/// large and over-aligned
#[repr(align(64))]
pub struct Big(pub [u8; 512]);
impl embedded_io::ErrorType for Big {
    type Error = core::convert::Infallible;
}
impl embedded_io::Write for Big {
    fn write(&mut self, buf: &[u8]) -> Result<usize, Self::Error> {
        self.0[0] = self.0[0].wrapping_add(1);
        on_write(buf);
        Ok(buf.len())
    }
    fn flush(&mut self) -> Result<(), Self::Error> {
        on_flush();
        Ok(())
    }
}

struct Proc {
    typed: bool,
    calls: usize,
}

impl<W: embedded_io::Write<Error = core::convert::Infallible>> CommandProcessor<W, core::convert::Infallible> for Proc {
    fn process<'a>(&mut self, cli: &mut CliHandle<'_, W, core::convert::Infallible>, raw: RawCommand<'a>) -> Result<(), ProcessError<'a, core::convert::Infallible>> {
        let k = self.calls;
        self.calls += 1;
        let name = raw.name().to_string();
        let shown = format!("{} {:?}", name, raw.args().args().map(|a| format!("{:?}", a)).collect::<Vec<_>>());
        LOG.with(|l| l.borrow_mut().dispatches.push(shown));
        if self.typed {
            <Base<'a> as FromRaw<'a>>::parse(raw).map_err(ProcessError::ParseError)?;
        }
        match k % 4 {
            0 => {}
            1 => cli.writer().write_str("got it")?,
            2 => {
                cli.writer().writeln_str(&name)?;
                cli.writer().write_str("second\n")?;
            }
            _ => {
                cli.writer().write_title("Title:")?;
                cli.writer().write_list_element("имя", "d", 6)?;
            }
        }
        if name.starts_with('p') {
            cli.set_prompt(PROMPTS[(k + 1) % PROMPTS.len()]);
        }
        Ok(())
    }
}

pub struct Transcript {
    pub bytes: Vec<u8>,
    pub dispatches: Vec<String>,
    pub dispatched: bool,
}

type Fail = (Diff, String, String);

fn drive<W: embedded_io::Write<Error = core::convert::Infallible>, CB: Buffer, HB: Buffer>(kind: &str, mut cli: Cli<W, core::convert::Infallible, CB, HB>, c: &Case) -> Result<Transcript, Fail> {
    let check = |what: &str| -> Result<(), Fail> {
        let (w, u, f) = LOG.with(|l| {
            let l = l.borrow();
            (l.written, l.unflushed, l.flushes)
        });
        if u != 0 {
            return Err((
                Diff::Flush,
                format!("{}: after {} every byte written has been followed by a flush", kind, what),
                format!("{} of {} bytes written so far are still unflushed ({} flushes seen)", u, w, f),
            ));
        }
        Ok(())
    };
    check("construction")?;
    let typed = c.cfg.set != "raw";
    let mut p = Proc { typed, calls: 0 };
    let mut last: Option<u8> = None;
    for (i, op) in c.ops.iter().enumerate() {
        match op {
            Op::Write(calls) => {
                let t = script_text(calls);
                let Ok(()) = cli.write(|w| w.write_str(&t));
            }
            Op::SetPrompt(k) => {
                let Ok(()) = cli.set_prompt(PROMPTS[*k % PROMPTS.len()]);
            }
            other => {
                for b in other.encode(&c.cfg, last) {
                    last = Some(b);
                    let Ok(()) = if typed { cli.process_byte::<Base<'_>, _>(b, &mut p) } else { cli.process_byte::<RawCommand<'_>, _>(b, &mut p) };
                    check(&format!("op #{} {:?} (byte {:02x})", i, op, b))?;
                }
            }
        }
        check(&format!("op #{} {:?}", i, op))?;
    }
    Ok(LOG.with(|l| {
        let l = l.borrow();
        Transcript {
            bytes: l.bytes.clone(),
            dispatches: l.dispatches.clone(),
            dispatched: p.calls > 0,
        }
    }))
}

/// Buffer sizes for which an array variant exists (const generics); the last one is the builder's default
const MENU: [(usize, usize); 5] = [(8, 16), (16, 0), (5, 7), (64, 64), (40, 100)];

fn reset() {
    LOG.with(|l| *l.borrow_mut() = SinkLog::default());
}

const BASE: &str = "a zero-sized sink, the harness's buffers and builder calls writer - command - history - prompt";

fn same(what: &str, base: &Transcript, other: &Transcript) -> Result<(), Fail> {
    if base.dispatches != other.dispatches {
        let at = base.dispatches.iter().zip(other.dispatches.iter()).position(|(a, b)| a != b).unwrap_or(base.dispatches.len().min(other.dispatches.len()));
        return Err((
            Diff::Dispatch,
            format!("{}: the handler receives what it receives with {}", what, BASE),
            format!("dispatch #{} differs: {:?} / {:?} ({} / {} dispatches)", at, other.dispatches.get(at), base.dispatches.get(at), other.dispatches.len(), base.dispatches.len()),
        ));
    }
    if base.bytes != other.bytes {
        let (mut a, mut b) = (Screen::new(), Screen::new());
        a.feed(&base.bytes);
        b.feed(&other.bytes);
        if a.inconclusive.is_none() && b.inconclusive.is_none() && (a.all_lines() != b.all_lines() || a.row != b.row || a.col != b.col) {
            let row = a.all_lines().iter().zip(b.all_lines().iter()).position(|(x, y)| x != y).unwrap_or(a.row.min(b.row));
            return Err((
                Diff::Display,
                format!("{}: a terminal shows what it shows with {}", what, BASE),
                format!("line {}: {:?} / {:?}; cursor ({}, {}) / ({}, {})", row, b.line_text(row), a.line_text(row), b.row, b.col, a.row, a.col),
            ));
        }
    }
    Ok(())
}

/// The session on each shape. Ok(non-trivial) or (what differs, expected, observed).
pub fn run(c0: &Case) -> Result<bool, Fail> {
    let mut c = c0.clone();
    let k = (c.cfg.cmd_buf + c.cfg.hist_buf) % 8;
    let menu = if k < MENU.len() { Some(k) } else { None };
    if let Some(k) = menu {
        c.cfg.cmd_buf = MENU[k].0;
        c.cfg.hist_buf = MENU[k].1;
    }
    let c = &c;
    let prompt = PROMPTS[c.cfg.prompt % PROMPTS.len()];
    let bufs = || (OwnedBuf(vec![0u8; c.cfg.cmd_buf]), OwnedBuf(vec![0u8; c.cfg.hist_buf]));
    // 1: zero-sized sink, harness buffers, writer - command - history - prompt (or the deprecated constructor)
    reset();
    let (cb, hb) = bufs();
    #[allow(deprecated)]
    let cli = if c.cfg.use_new { Cli::new(Uart, cb, hb) } else { CliBuilder::default().writer(Uart).command_buffer(cb).history_buffer(hb).prompt(prompt).build() };
    let Ok(cli) = cli;
    let base = drive("zero-sized sink", cli, c)?;
    // `Cli::new` has the default prompt; the other shapes go through the builder with that prompt
    let prompt = if c.cfg.use_new { "$ " } else { prompt };
    // 2: large sink, builder calls in the opposite order
    reset();
    let (cb, hb) = bufs();
    let Ok(cli) = CliBuilder::default().prompt(prompt).history_buffer(hb).command_buffer(cb).writer(Big([0; 512])).build();
    let what = "512-byte sink, builder calls prompt - history - command - writer";
    same(what, &base, &drive(what, cli, c)?)?;
    // 3: a reference to a sink, another order
    reset();
    let (cb, hb) = bufs();
    let mut u = Uart;
    let Ok(cli) = CliBuilder::default().command_buffer(cb).prompt(prompt).writer(&mut u).history_buffer(hb).build();
    let what = "`&mut` sink, builder calls command - prompt - writer - history";
    same(what, &base, &drive(what, cli, c)?)?;
    // 4: slices as buffers (aligned, zeroed)
    reset();
    let (mut v1, mut v2) = (vec![0u8; c.cfg.cmd_buf], vec![0u8; c.cfg.hist_buf]);
    let Ok(cli) = CliBuilder::default().writer(Uart).prompt(prompt).command_buffer(&mut v1[..]).history_buffer(&mut v2[..]).build();
    let what = "`&mut [u8]` buffers";
    same(what, &base, &drive(what, cli, c)?)?;
    // 5: arrays as buffers
    macro_rules! arrays {
        ($a:expr, $b:expr) => {{
            reset();
            let Ok(cli) = CliBuilder::default().writer(Uart).command_buffer([0u8; $a]).history_buffer([0u8; $b]).prompt(prompt).build();
            let what = "`[u8; N]` buffers";
            same(what, &base, &drive(what, cli, c)?)?;
        }};
    }
    match menu {
        Some(0) => arrays!(8, 16),
        Some(1) => arrays!(16, 0),
        Some(2) => arrays!(5, 7),
        Some(3) => arrays!(64, 64),
        Some(4) => {
            arrays!(40, 100);
            // the builder's own buffers
            reset();
            let Ok(cli) = CliBuilder::default().writer(Uart).prompt(prompt).build();
            // (their size is the library's to choose, so only the flush invariant inside `drive` is judged here)
            drive("the builder's default buffers", cli, c)?;
        }
        _ => {}
    }
    Ok(base.dispatched)
}
