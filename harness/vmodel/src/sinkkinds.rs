//! C15 over sinks of different *types*: the lock-step sessions use one recording sink (a handle with a pointer in it);
//! here the same sessions run on a zero-sized sink (the usual shape of a microcontroller's serial handle: `struct Uart;`
//! writing to a peripheral), on a sink padded to 512 bytes and on `&mut` of a sink. The state lives in a thread-local, the
//! invariant is C15's: when a call returns, every byte it wrote has been followed by a flush.
use std::cell::RefCell;

use embedded_cli::{
    cli::{Cli, CliBuilder, CliHandle},
    command::RawCommand,
    service::{CommandProcessor, FromRaw, ProcessError},
};

use crate::{
    lockstep::Case,
    session::{script_text, Base, Op, OwnedBuf, PROMPTS},
};

#[derive(Default)]
pub struct SinkLog {
    pub written: usize,
    pub unflushed: usize,
    pub flushes: usize,
}

thread_local! {
    pub static LOG: RefCell<SinkLog> = RefCell::new(SinkLog::default());
}

fn on_write(n: usize) {
    LOG.with(|l| {
        let mut l = l.borrow_mut();
        l.written += n;
        l.unflushed += n;
    });
}
fn on_flush() {
    LOG.with(|l| {
        let mut l = l.borrow_mut();
        l.unflushed = 0;
        l.flushes += 1;
    });
}

/// zero-sized
pub struct Uart;
impl embedded_io::ErrorType for Uart {
    type Error = core::convert::Infallible;
}
impl embedded_io::Write for Uart {
    fn write(&mut self, buf: &[u8]) -> Result<usize, Self::Error> {
        on_write(buf.len());
        Ok(buf.len())
    }
    fn flush(&mut self) -> Result<(), Self::Error> {
        on_flush();
        Ok(())
    }
}

/// large and over-aligned
#[repr(align(64))]
pub struct Big(pub [u8; 512]);
impl embedded_io::ErrorType for Big {
    type Error = core::convert::Infallible;
}
impl embedded_io::Write for Big {
    fn write(&mut self, buf: &[u8]) -> Result<usize, Self::Error> {
        self.0[0] = self.0[0].wrapping_add(1);
        on_write(buf.len());
        Ok(buf.len())
    }
    fn flush(&mut self) -> Result<(), Self::Error> {
        on_flush();
        Ok(())
    }
}

struct Proc {
    typed: bool,
    calls: usize,
}

impl<W: embedded_io::Write<Error = core::convert::Infallible>> CommandProcessor<W, core::convert::Infallible> for Proc {
    fn process<'a>(&mut self, cli: &mut CliHandle<'_, W, core::convert::Infallible>, raw: RawCommand<'a>) -> Result<(), ProcessError<'a, core::convert::Infallible>> {
        let k = self.calls;
        self.calls += 1;
        let name = raw.name().to_string();
        if self.typed {
            <Base<'a> as FromRaw<'a>>::parse(raw).map_err(ProcessError::ParseError)?;
        }
        match k % 4 {
            0 => {}
            1 => cli.writer().write_str("got it")?,
            2 => {
                cli.writer().writeln_str(&name)?;
                cli.writer().write_str("second\n")?;
            }
            _ => {
                cli.writer().write_title("Title:")?;
                cli.writer().write_list_element("имя", "d", 6)?;
            }
        }
        if name.starts_with('p') {
            cli.set_prompt(PROMPTS[(k + 1) % PROMPTS.len()]);
        }
        Ok(())
    }
}

fn drive<W: embedded_io::Write<Error = core::convert::Infallible>>(kind: &str, mut cli: Cli<W, core::convert::Infallible, OwnedBuf, OwnedBuf>, c: &Case) -> Result<bool, (String, String)> {
    let check = |what: &str| -> Result<(), (String, String)> {
        let (w, u, f) = LOG.with(|l| {
            let l = l.borrow();
            (l.written, l.unflushed, l.flushes)
        });
        if u != 0 {
            return Err((
                format!("{} sink: after {} every byte written has been followed by a flush", kind, what),
                format!("{} of {} bytes written so far are still unflushed ({} flushes seen)", u, w, f),
            ));
        }
        Ok(())
    };
    check("construction")?;
    let typed = c.cfg.set != "raw";
    let mut p = Proc { typed, calls: 0 };
    let mut last: Option<u8> = None;
    for (i, op) in c.ops.iter().enumerate() {
        match op {
            Op::Write(calls) => {
                let t = script_text(calls);
                let Ok(()) = cli.write(|w| w.write_str(&t));
            }
            Op::SetPrompt(k) => {
                let Ok(()) = cli.set_prompt(PROMPTS[*k % PROMPTS.len()]);
            }
            other => {
                for b in other.encode(&c.cfg, last) {
                    last = Some(b);
                    let Ok(()) = if typed { cli.process_byte::<Base<'_>, _>(b, &mut p) } else { cli.process_byte::<RawCommand<'_>, _>(b, &mut p) };
                    check(&format!("op #{} {:?} (byte {:02x})", i, op, b))?;
                }
            }
        }
        check(&format!("op #{} {:?}", i, op))?;
    }
    Ok(p.calls > 0)
}

fn bufs(c: &Case) -> (OwnedBuf, OwnedBuf) {
    (OwnedBuf(vec![0u8; c.cfg.cmd_buf]), OwnedBuf(vec![0u8; c.cfg.hist_buf]))
}

/// The session on each kind of sink. Ok(non-trivial) or (expected, observed).
pub fn run(c: &Case) -> Result<bool, (String, String)> {
    let prompt = PROMPTS[c.cfg.prompt % PROMPTS.len()];
    let mut nt = false;
    // zero-sized
    LOG.with(|l| *l.borrow_mut() = SinkLog::default());
    let (cb, hb) = bufs(c);
    #[allow(deprecated)]
    let cli = if c.cfg.use_new { Cli::new(Uart, cb, hb) } else { CliBuilder::default().writer(Uart).command_buffer(cb).history_buffer(hb).prompt(prompt).build() };
    let Ok(cli) = cli;
    nt |= drive("zero-sized", cli, c)?;
    // large
    LOG.with(|l| *l.borrow_mut() = SinkLog::default());
    let (cb, hb) = bufs(c);
    let Ok(cli) = CliBuilder::default().writer(Big([0; 512])).command_buffer(cb).history_buffer(hb).prompt(prompt).build();
    nt |= drive("512-byte", cli, c)?;
    // a reference
    LOG.with(|l| *l.borrow_mut() = SinkLog::default());
    let (cb, hb) = bufs(c);
    let mut u = Uart;
    let Ok(cli) = CliBuilder::default().writer(&mut u).command_buffer(cb).history_buffer(hb).prompt(prompt).build();
    nt |= drive("&mut", cli, c)?;
    Ok(nt)
}
