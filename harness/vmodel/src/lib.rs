//! Reference models, sinks, terminal emulator, session driver and engine glue shared by all checks.
pub mod engine;
pub mod refs;
pub mod screen;
pub mod session;
pub mod sink;
pub mod decl;
pub mod gencrate;
pub mod genrun;
pub mod tracerun;
pub mod fuzzrun;
