//! Reference models, sinks, terminal emulator, session driver and engine glue shared by all checks.
pub mod engine;
pub mod refs;
pub mod screen;
pub mod session;
pub mod sink;
pub mod sinkkinds;
pub mod decl;
pub mod gencrate;
pub mod genrun;
pub mod tracerun;
pub mod fuzzrun;
pub mod growrun;
pub mod lockstep;
pub mod fuzzlock;
pub mod fdiff;

/// Root of the verification tree: `$VERIF_ROOT` (set by the `vcheck` script from its own location) or `/verif`.
/// Lets a snapshot of the tree (e.g. a background run) build and run without touching the live one.
pub fn root() -> std::path::PathBuf {
    std::path::PathBuf::from(std::env::var("VERIF_ROOT").unwrap_or_else(|_| "/verif".to_string()))
}

/// `root()` joined with a relative path, as a String
pub fn rooted(rel: &str) -> String {
    root().join(rel).to_string_lossy().to_string()
}

/// The repository under test: `/repo`, except in the sensitivity farm (`tools/mutant_farm.py`), which works on
/// private copies of both trees and sets `VERIF_REPO` (the copied manifests are rewritten the same way).
pub fn repo_root() -> String {
    std::env::var("VERIF_REPO").unwrap_or_else(|_| "/repo".to_string())
}
