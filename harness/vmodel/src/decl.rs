//! Generator of command declarations for the derive macros (C09, C11, C12): produces Rust source
//! and a JSON model, plus the reference interpreter of the model (`ref_parse`, help facts).
//!
//! Grammar: DESIGN appendix B. Well-formedness the macros assume is kept by construction.

use std::collections::BTreeMap;

use proptest::prelude::RngCore;
use proptest::test_runner::{RngAlgorithm, TestRng};
use serde::{Deserialize, Serialize};

use crate::{
    refs::{ref_classify, RArg},
    session::PErr,
};

// ------------------------------------------------------------------------------------------------
// model

#[derive(Clone, Debug, PartialEq, Eq, Serialize, Deserialize)]
pub struct DocM {
    /// lines exactly as written after `///` (without the leading space the macro strips)
    pub lines: Vec<String>,
    /// how the text is attached: 0 `///` lines, 1 `#[doc = " line"]` per line, 2 `#[doc = "line"]` per line (no leading
    /// space to strip), 3 one `#[doc = "\n line\n line"]` attribute that starts with a blank line (what `/**` on its own
    /// line produces)
    #[serde(default)]
    pub style: u8,
    /// expected summary (first paragraph, final period removed)
    pub summary: String,
    /// expected description paragraphs
    pub paragraphs: Vec<String>,
}

#[derive(Clone, Debug, PartialEq, Eq, Serialize, Deserialize)]
pub enum Kind {
    Pos,
    Flag,
    Opt,
}

#[derive(Clone, Debug, PartialEq, Eq, Serialize, Deserialize)]
pub enum DefaultM {
    /// `default_value = "lit"`
    Str(String),
    /// `default_value_t = expr` ; (expr source, spelling that parses to the same value)
    Expr(String, String),
    /// bare `default_value_t`
    Bare,
}

#[derive(Clone, Debug, PartialEq, Eq, Serialize, Deserialize)]
pub struct FieldM {
    pub name: String,
    pub ty: String,
    pub optional: bool,
    pub kind: Kind,
    pub short: Option<char>,
    pub long: Option<String>,
    pub short_gen: bool,
    pub long_gen: bool,
    /// explicit short name spelled as a string literal (`short = "x"`) instead of a char literal
    #[serde(default)]
    pub short_str: bool,
    /// k > 0: the options of the field are spread over two `#[arg(..)]` attributes, the first holding k of them
    #[serde(default)]
    pub arg_split: u8,
    /// how `Option` is spelled for an optional field: 0 `Option<T>`, 1 `core::option::Option<T>`, 2 `std::option::Option<T>`
    #[serde(default)]
    pub opt_path: u8,
    pub default: Option<DefaultM>,
    pub value_name: Option<String>,
    pub doc: Option<DocM>,
}

#[derive(Clone, Debug, PartialEq, Eq, Serialize, Deserialize)]
pub struct SubM {
    pub enum_id: String,
    pub optional: bool,
    /// None for tuple variants
    pub field: Option<String>,
}

#[derive(Clone, Debug, PartialEq, Eq, Serialize, Deserialize)]
pub struct VariantM {
    pub ident: String,
    pub name: String,
    pub explicit: bool,
    pub doc: Option<DocM>,
    pub fields: Vec<FieldM>,
    pub sub: Option<SubM>,
    pub tuple: bool,
}

#[derive(Clone, Debug, PartialEq, Eq, Serialize, Deserialize)]
pub struct EnumM {
    pub id: String,
    pub variants: Vec<VariantM>,
    pub lt: bool,
    /// `#[command(help_title = "..")]` on the enum (the heading of its command list; headings are not pinned by any oracle)
    #[serde(default)]
    pub help_title: Option<String>,
    /// see `RootM::svc`
    #[serde(default)]
    pub svc: u8,
}

/// A `#[derive(CommandGroup)]` enum used as the type of a sub-command (`#[command(subcommand)] Dev(Dev<'a>)`)
#[derive(Clone, Debug, PartialEq, Eq, Serialize, Deserialize)]
pub struct SubGroupM {
    pub id: String,
    /// members in declaration order (never the RawCommand catch-all)
    pub members: Vec<RootM>,
    pub lt: bool,
}

#[derive(Clone, Debug, PartialEq, Eq, Serialize, Deserialize)]
pub struct RootM {
    /// enum id, or "RAW" for the RawCommand catch-all
    pub enum_id: String,
    pub hidden: bool,
    pub ident: String,
    /// service traits written by hand instead of derived: 1 = `#[command(skip_help)]` + a `Help` that knows no command
    /// (the member takes part in completion, not in help), 2 = `#[command(skip_autocomplete)]` + an `Autocomplete` that
    /// proposes nothing (listed by help, not completed)
    #[serde(default)]
    pub svc: u8,
    /// the member sits in a command group of its own that is itself a member of the root group (`Root::Nest(Nest::M0(..))`);
    /// members with the same value are neighbours and share that inner group
    #[serde(default)]
    pub nest: Option<String>,
}

impl RootM {
    pub fn in_help(&self) -> bool {
        !self.hidden && self.svc != 1 && self.enum_id != "RAW"
    }
    pub fn in_completion(&self) -> bool {
        !self.hidden && self.svc != 2 && self.enum_id != "RAW"
    }
}

#[derive(Clone, Debug, PartialEq, Eq, Serialize, Deserialize)]
pub struct Decl {
    pub id: usize,
    pub enums: BTreeMap<String, EnumM>,
    pub roots: Vec<RootM>,
    pub grouped: bool,
    pub root_lt: bool,
    /// generated for a build without the help feature: `-h` / `--help` / `help` are ordinary names there
    #[serde(default)]
    pub help_names: bool,
    /// command groups used as sub-command types (`SubM::enum_id` may name one of these instead of an enum)
    #[serde(default)]
    pub subgroups: BTreeMap<String, SubGroupM>,
}

impl Decl {
    /// The enums a sub-command id stands for, in the order they are tried: (enum id, hidden, wrapping variant of the group)
    pub fn sub_members(&self, id: &str) -> Vec<(String, bool, Option<String>)> {
        match self.subgroups.get(id) {
            Some(g) => g.members.iter().map(|m| (m.enum_id.clone(), m.hidden, Some(m.ident.clone()))).collect(),
            None => vec![(id.to_string(), false, None)],
        }
    }

    /// Variants a user can name at this sub-command position (`visible_only`: those help may show)
    pub fn sub_variants(&self, id: &str, visible_only: bool) -> Vec<&VariantM> {
        let mut out = Vec::new();
        for (eid, hidden, _) in self.sub_members(id) {
            if hidden && visible_only {
                continue;
            }
            out.extend(self.enums[&eid].variants.iter());
        }
        out
    }

    pub fn has_raw(&self) -> bool {
        self.roots.iter().any(|r| r.enum_id == "RAW")
    }

    /// names that take part in completion: variants of visible roots, in declaration order
    pub fn visible_names(&self) -> Vec<String> {
        let mut out = Vec::new();
        for r in &self.roots {
            if !r.in_completion() {
                continue;
            }
            for v in &self.enums[&r.enum_id].variants {
                out.push(v.name.clone());
            }
        }
        out
    }
}

// ------------------------------------------------------------------------------------------------
// random source

pub struct R(pub TestRng);

impl R {
    pub fn new(seed: [u8; 32]) -> Self {
        R(TestRng::from_seed(RngAlgorithm::ChaCha, &seed))
    }
    pub fn below(&mut self, n: usize) -> usize {
        if n == 0 {
            return 0;
        }
        (self.0.next_u64() % n as u64) as usize
    }
    pub fn chance(&mut self, percent: u32) -> bool {
        (self.0.next_u32() % 100) < percent
    }
    pub fn pick<T: Clone>(&mut self, v: &[T]) -> T {
        v[self.below(v.len())].clone()
    }
    pub fn range(&mut self, lo: usize, hi_incl: usize) -> usize {
        lo + self.below(hi_incl - lo + 1)
    }
}

// ------------------------------------------------------------------------------------------------
// generator

const WORDS: [&str; 36] = [
    "get", "set", "led", "adc", "exit", "run", "stop", "file", "mode", "temp", "cfg", "net", "io", "up", "down", "left", "name", "level", "rate", "quiet", "verbose", "item", "task", "job", "line", "value",
    "size", "port", "ping", "list", "show", "open", "close", "start", "reset", "blink",
];

pub const TYPES: [&str; 17] = [
    "u8", "i8", "u16", "i16", "u32", "i32", "u64", "i64", "u128", "i128", "usize", "isize", "f32", "f64", "bool", "char", "&'a str",
];

fn pascal(ws: &[&str]) -> String {
    ws.iter()
        .map(|w| {
            let mut c = w.chars();
            let f = c.next().unwrap().to_ascii_uppercase();
            format!("{}{}", f, c.as_str())
        })
        .collect()
}

struct Gen<'r> {
    r: &'r mut R,
    uid: usize,
    enums: BTreeMap<String, EnumM>,
    docn: usize,
    /// declarations for builds without the help feature: `help`, `-h` and `--help` are ordinary names there,
    /// so commands and options may be called that
    help_names: bool,
    subgroups: BTreeMap<String, SubGroupM>,
}

impl Gen<'_> {
    fn words(&mut self, n: usize) -> Vec<&'static str> {
        let mut out: Vec<&'static str> = Vec::new();
        while out.len() < n {
            let w = self.r.pick(&WORDS);
            if !out.contains(&w) {
                out.push(w);
            }
        }
        out
    }

    fn doc(&mut self, about: &str) -> Option<DocM> {
        // 4: `#[allow(unused)]` between the first doc line and the rest, 5: the whole doc text after the item's own
        // attribute, 6: the item's own attribute between the first doc line and the rest
        // 7: one `#[doc = " line\n line\n"]` attribute per paragraph, each ending in a line feed (what a block comment closed
        // on its own line produces): the empty last line of one attribute is what separates it from the next
        let style = match self.r.below(15) {
            0 => 1,
            1 => 2,
            2 => 3,
            3 => 4,
            4 => 5,
            5 => 6,
            6 => 7,
            _ => 0,
        };
        self.doc_plain(about).map(|mut d| {
            d.style = style;
            d
        })
    }

    fn doc_plain(&mut self, about: &str) -> Option<DocM> {
        if self.r.chance(35) {
            return None;
        }
        self.docn += 1;
        let n = self.docn;
        // a final period is dropped from the summary, an ellipsis is text and stays
        let dot = match self.r.below(12) {
            0 => "...",
            1..=6 => ".",
            _ => "",
        };
        let strip_period = |t: &str| if t.ends_with("..") { t.to_string() } else { t.strip_suffix('.').unwrap_or(t).to_string() };
        match self.r.below(6) {
            4 => {
                // paragraphs separated by more than one blank line, and a third paragraph
                let a = format!("Brief of {} number {}{}", about, n, dot);
                let b = format!("Middle paragraph of item {}.", n);
                let c1 = format!("Last paragraph of item {}", n);
                let c2 = "ends here.".to_string();
                Some(DocM {
                    style: 0,
                    lines: vec![a.clone(), String::new(), String::new(), b.clone(), String::new(), String::new(), String::new(), c1.clone(), c2.clone()],
                    summary: strip_period(&a),
                    paragraphs: vec![a, b, format!("{} {}", c1, c2)],
                })
            }
            0 | 1 | 5 => {
                let l = format!("Summary of {} number {}", about, n);
                Some(DocM {
                    style: 0,
                    lines: vec![format!("{}{}", l, dot)],
                    summary: strip_period(&format!("{}{}", l, dot)),
                    paragraphs: vec![format!("{}{}", l, dot)],
                })
            }
            2 => {
                let a = format!("First line about {} number {}", about, n);
                let b = format!("second line goes on{}", dot);
                let merged = format!("{} {}", a, b);
                Some(DocM {
                    style: 0,
                    lines: vec![a, b],
                    summary: strip_period(&merged),
                    paragraphs: vec![merged],
                })
            }
            _ => {
                let a = format!("Short text of {} number {}{}", about, n, dot);
                let b1 = format!("Longer explanation of item {}", n);
                let b2 = "that spans two lines.".to_string();
                Some(DocM {
                    style: 0,
                    lines: vec![a.clone(), String::new(), b1.clone(), b2.clone()],
                    summary: strip_period(&a),
                    paragraphs: vec![a, format!("{} {}", b1, b2)],
                })
            }
        }
    }

    /// The type of a sub-command: an enum, or now and then a command group of two enums (one of them possibly hidden)
    fn mk_sub(&mut self, depth: usize) -> String {
        let mut none = Vec::new();
        let first = self.mk_enum(depth, &mut none);
        if !self.r.chance(22) {
            return first;
        }
        let second = self.mk_enum(depth, &mut none);
        // names unique across the members
        let taken: Vec<String> = self.enums[&first].variants.iter().map(|v| v.name.clone()).collect();
        for v in self.enums.get_mut(&second).unwrap().variants.iter_mut() {
            if taken.contains(&v.name) {
                v.name = format!("{}2", v.name);
                v.explicit = true;
            }
        }
        self.uid += 1;
        let id = format!("SG{}", self.uid);
        let hide = self.r.below(4);
        let members = vec![
            RootM { enum_id: first, hidden: hide == 0, ident: "Ma".into(), svc: 0, nest: None },
            RootM { enum_id: second, hidden: hide == 1, ident: "Mb".into(), svc: 0, nest: None },
        ];
        self.subgroups.insert(id.clone(), SubGroupM { id: id.clone(), members, lt: false });
        id
    }

    fn mk_enum(&mut self, depth: usize, taken_names: &mut Vec<String>) -> String {
        self.uid += 1;
        let id = format!("E{}", self.uid);
        let nv = self.r.range(1, 5);
        let mut variants: Vec<VariantM> = Vec::new();
        let mut used_ident: Vec<String> = Vec::new();
        let mut used_name: Vec<String> = Vec::new();
        for _ in 0..nv {
            let mut tries = 0;
            let (ident, derived) = loop {
                let k = self.r.range(1, 2);
                let ws = self.words(k);
                let ident = pascal(&ws);
                let name = ws.join("-");
                tries += 1;
                if tries > 50 {
                    break (format!("{}X{}", ident, self.uid), format!("{}-x{}", name, self.uid));
                }
                if used_ident.contains(&ident) || used_name.contains(&name) || (name == "help" && !self.help_names) || (depth == 0 && taken_names.contains(&name)) {
                    continue;
                }
                break (ident, name);
            };
            let mut name = derived;
            let mut explicit = false;
            if self.r.chance(30) {
                // explicit names are used verbatim: mixed case, underscores, multi-byte names whose first differing characters share
                // a lead byte (пуск / путь / пуля, k佐 / k佗), names around the built-in `help`, one long multi-byte name, names that begin with
                // the same character or syllable twice (`eeprom`, `gogo`: the typed word occurs in them more than once)
                let base = self.r.pick(&["x", "go-now", "пуск", "值", "a_b", "Q", "гет", "ge", "get", "путь", "пуля", "k佐", "k佗", "heap", "heat", "he", "helm", "h", "длинная-команда", "maxLevel", "eeprom", "gogo", "ssid-set", "ssid-show", "aab", "жжук", "佐佐木"]);
                let cand = format!("{}{}", base, if self.r.chance(60) { self.r.below(10).to_string() } else { String::new() });
                if !used_name.contains(&cand) && cand != "help" && !(depth == 0 && taken_names.contains(&cand)) {
                    name = cand;
                    explicit = true;
                }
            }
            if self.help_names && self.r.chance(12) && !used_name.contains(&"help".to_string()) && !(depth == 0 && taken_names.contains(&"help".to_string())) {
                name = "help".to_string();
                explicit = true;
            }
            // a *nested* sub-command may be called `help` in any build: only a line that starts with `help` is the
            // library's business (`modem help` is an ordinary command, and `modem --help` must list it)
            if !self.help_names && depth >= 1 && self.r.chance(10) && !used_name.contains(&"help".to_string()) {
                name = "help".to_string();
                explicit = true;
            }
            used_ident.push(ident.clone());
            used_name.push(name.clone());
            if depth == 0 {
                taken_names.push(name.clone());
            }
            let doc = self.doc(&name);
            let mut v = VariantM {
                ident,
                name: name.clone(),
                explicit,
                doc,
                fields: vec![],
                sub: None,
                tuple: false,
            };
            let kind = self.r.below(100);
            let has_sub = depth < 2 && self.r.chance(30);
            if kind < 15 {
                // unit
            } else if kind < 27 && depth < 2 {
                let sub = self.mk_sub(depth + 1);
                v.tuple = true;
                v.sub = Some(SubM {
                    enum_id: sub,
                    optional: self.r.chance(30),
                    field: None,
                });
            } else {
                let nf = self.r.range(0, 6);
                let mut fnames: Vec<String> = Vec::new();
                let mut fwords: Vec<String> = Vec::new();
                let mut shorts: Vec<char> = if self.help_names { vec![] } else { vec!['h'] };
                let mut longs: Vec<String> = if self.help_names { vec![] } else { vec!["help".to_string()] };
                let mut vnames: Vec<String> = Vec::new();
                let mut used_h = false;
                for _ in 0..nf {
                    let k = self.r.range(1, 2);
                    let ws = self.words(k);
                    // now and then an identifier outside ASCII (lower-case words joined by `_`, so kebab-case is still plain)
                    let (fname, lname) = if self.r.chance(8) {
                        let (a, b) = self.r.pick(&[("юникод", "юникод"), ("порт_данных", "порт-данных"), ("größe", "größe"), ("値", "値"), ("ñu_x", "ñu-x"), ("𠀀a", "𠀀a")]);
                        (a.to_string(), b.to_string())
                    } else if self.r.chance(6) {
                        // underscores that separate nothing (`type_` because `type` is a keyword, `_quiet`, `dry__run`): kebab-case
                        // is the words joined by single dashes, so no dash can lead, trail or double
                        let (a, b) = self.r.pick(&[("type_", "type"), ("loop_", "loop"), ("_quiet", "quiet"), ("dry__run", "dry-run"), ("_raw_mode_", "raw-mode"), ("match_", "match")]);
                        (a.to_string(), b.to_string())
                    } else {
                        (ws.join("_"), ws.join("-"))
                    };
                    // (two identifiers with the same words - `quiet` and `_quiet` - would collide in the names the macros derive
                    // from them; a user gets a compile error there)
                    if fnames.contains(&fname) || fwords.contains(&lname) {
                        continue;
                    }
                    fwords.push(lname.clone());
                    let ty = self.r.pick(&TYPES).to_string();
                    let mut f = FieldM {
                        name: fname.clone(),
                        ty: ty.clone(),
                        optional: self.r.chance(30),
                        kind: Kind::Pos,
                        short: None,
                        long: None,
                        short_gen: false,
                        long_gen: false,
                        short_str: false,
                        arg_split: 0,
                        opt_path: 0,
                        default: None,
                        value_name: None,
                        doc: None,
                    };
                    let mut want_named = self.r.chance(60);
                    if has_sub {
                        want_named = true;
                    }
                    if want_named {
                        let c = self.r.below(100);
                        let mut s: Option<char> = None;
                        let mut l: Option<String> = None;
                        let mut sg = false;
                        let mut lg = false;
                        let mut shadow_h = false;
                        if c < 60 {
                            if self.r.chance(70) && !fname.starts_with('_') {
                                s = fname.chars().next();
                                sg = true;
                            } else {
                                s = Some(self.r.pick(&['Ю', 'z', '9', 'ж', 'X', '値', 'q']));
                            }
                            if self.help_names && self.r.chance(35) {
                                s = Some('h');
                                sg = false;
                            }
                            // with help on, `-h` always asks for help, but an option may still carry the short name h next
                            // to a long one (`-h, --host <HOST>`): it is given by its long name and listed with both
                            if !self.help_names && c > 30 && self.r.chance(8) && !used_h {
                                used_h = true;
                                s = Some('h');
                                sg = false;
                                shadow_h = true;
                            }
                            if !shadow_h && shorts.contains(&s.unwrap()) {
                                s = None;
                                sg = false;
                            }
                        }
                        if c > 30 || s.is_none() {
                            if self.r.chance(70) {
                                l = Some(lname.clone());
                                lg = true;
                            } else {
                                l = Some(format!("{}{}", self.r.pick(&["конф", "long-x", "o", "值", "maxLevel", "log_file", "Xy", "очень-длинное-имя", "connection-timeout-millis-extended-x"]), longs.len()));
                            }
                            if self.help_names && self.r.chance(30) {
                                l = Some("help".to_string());
                                lg = false;
                            }
                            if longs.contains(l.as_ref().unwrap()) {
                                l = None;
                                lg = false;
                            }
                        }
                        if shadow_h && l.is_none() {
                            s = None;
                        }
                        if s.is_some() || l.is_some() {
                            f.kind = if ty == "bool" { Kind::Flag } else { Kind::Opt };
                            f.short = s;
                            f.long = l.clone();
                            f.short_gen = sg;
                            f.long_gen = lg;
                            f.short_str = !sg && s.is_some() && self.r.chance(30);
                            if let Some(s) = s {
                                shorts.push(s);
                            }
                            if let Some(l) = l {
                                longs.push(l);
                            }
                        }
                    }
                    if f.kind == Kind::Pos && has_sub {
                        continue;
                    }
                    if f.kind == Kind::Flag && !self.r.chance(10) {
                        f.optional = false;
                    }
                    if f.kind != Kind::Flag && !f.optional && self.r.chance(35) {
                        let (lit, expr) = sample_default(&ty, self.r);
                        f.default = Some(match self.r.below(10) {
                            0..=4 => DefaultM::Str(lit),
                            5..=7 => DefaultM::Expr(expr, lit),
                            _ => DefaultM::Bare,
                        });
                    }
                    if self.r.chance(25) {
                        // value names are kept unique within a command (as a user would)
                        let vn = self.r.pick(&["FILE", "lvl", "NM", "Вал", "N", "ОЧЕНЬ_ДЛИННОЕ", "GRÖSSE"]).to_string();
                        if !vnames.contains(&vn) {
                            f.value_name = Some(vn);
                        }
                    }
                    // (a default value name - the field name in upper case - may collide with an explicit one given earlier)
                    let mut shown = f.value_name.clone().unwrap_or_else(|| fname.to_uppercase());
                    if vnames.contains(&shown) {
                        shown = format!("{}{}", shown, vnames.len());
                        f.value_name = Some(shown.clone());
                    }
                    vnames.push(shown);
                    if self.r.chance(15) {
                        f.arg_split = self.r.range(1, 3) as u8;
                    }
                    if f.optional && self.r.chance(25) {
                        f.opt_path = self.r.range(1, 2) as u8;
                    }
                    f.doc = self.doc(&format!("{} in {}", fname, name));
                    fnames.push(fname);
                    v.fields.push(f);
                }
                if has_sub {
                    let sub = self.mk_sub(depth + 1);
                    v.sub = Some(SubM {
                        enum_id: sub,
                        optional: self.r.chance(40),
                        field: Some("cmd_sub".to_string()),
                    });
                }
            }
            variants.push(v);
        }
        self.enums.insert(
            id.clone(),
            EnumM {
                id: id.clone(),
                variants,
                lt: false,
                help_title: if self.r.chance(15) { Some(self.r.pick(&["Led", "Сеть", "Base commands", "X"]).to_string()) } else { None },
                svc: 0,
            },
        );
        id
    }
}

fn sample_default(ty: &str, r: &mut R) -> (String, String) {
    match ty {
        "bool" => ("true".into(), "true".into()),
        "char" => ("q".into(), "'q'".into()),
        "f32" | "f64" => ("2.5".into(), "2.5".into()),
        "&'a str" => ("dflt val".into(), "\"dflt val\"".into()),
        t if t.starts_with('i') => {
            let v = r.pick(&["-3", "7", "0", "100"]);
            (v.into(), v.into())
        }
        _ => {
            let v = r.pick(&["7", "0", "100", "9"]);
            (v.into(), v.into())
        }
    }
}

fn needs_lt(id: &str, enums: &BTreeMap<String, EnumM>, groups: &BTreeMap<String, SubGroupM>) -> bool {
    if let Some(g) = groups.get(id) {
        return g.members.iter().any(|m| needs_lt(&m.enum_id, enums, groups));
    }
    enums[id].variants.iter().any(|v| v.fields.iter().any(|f| f.ty.contains("'a")) || v.sub.as_ref().map(|s| needs_lt(&s.enum_id, enums, groups)).unwrap_or(false))
}

pub fn generate(id: usize, r: &mut R) -> Decl {
    generate_opts(id, r, false)
}

/// `help_names`: for builds without the help feature (see `Gen::help_names`)
pub fn generate_opts(id: usize, r: &mut R, help_names: bool) -> Decl {
    let mut g = Gen {
        r,
        uid: 0,
        enums: BTreeMap::new(),
        docn: 0,
        help_names,
        subgroups: BTreeMap::new(),
    };
    let grouped = g.r.chance(40);
    let nroots = if grouped { g.r.range(2, 4) } else { 1 };
    let mut taken: Vec<String> = Vec::new();
    let mut roots = Vec::new();
    for i in 0..nroots {
        let e = g.mk_enum(0, &mut taken);
        roots.push(RootM {
            enum_id: e,
            hidden: grouped && g.r.chance(25),
            ident: format!("M{}", i),
            svc: 0,
            nest: None,
        });
    }
    if grouped {
        let mut raw = g.r.chance(25);
        // every member with commands hidden is kept when a visible catch-all follows (a set without a single visible command)
        if g.r.chance(6) {
            raw = true;
            for r in roots.iter_mut() {
                r.hidden = true;
            }
        }
        if roots.iter().all(|r| r.hidden) && !raw {
            roots[0].hidden = false;
        }
        if raw {
            roots.push(RootM {
                enum_id: "RAW".into(),
                hidden: false,
                ident: "Raw".into(),
                svc: 0,
                nest: None,
            });
        }
    }
    // now and then a chain of nine nested sub-commands hangs off the first member ("nested to any depth": tables of a fixed
    // size for the command path end somewhere)
    if g.r.chance(10) {
        let depth = g.r.range(8, 10);
        let mut next: Option<String> = None;
        for level in (1..=depth).rev() {
            g.uid += 1;
            let id = format!("D{}", g.uid);
            let mut v = VariantM {
                // (letters: kebab-case of an identifier with digits is outside the plain words of Appendix B)
                ident: format!("Lv{}", (b'a' + level as u8 - 1) as char),
                name: format!("lv{}", (b'a' + level as u8 - 1) as char),
                explicit: false,
                doc: g.doc(&format!("level {}", level)),
                fields: Vec::new(),
                sub: None,
                tuple: false,
            };
            match &next {
                Some(n) => {
                    v.tuple = true;
                    v.sub = Some(SubM { enum_id: n.clone(), optional: false, field: None });
                }
                None => {
                    v.fields.push(FieldM {
                        name: "file".into(),
                        ty: "u8".into(),
                        optional: false,
                        kind: Kind::Pos,
                        short: None,
                        long: None,
                        short_gen: false,
                        long_gen: false,
                        short_str: false,
                        arg_split: 0,
                        opt_path: 0,
                        default: None,
                        value_name: None,
                        doc: None,
                    });
                }
            }
            let mut variants = vec![v];
            if level % 3 == 0 {
                variants.push(VariantM { ident: "Side".into(), name: "side".into(), explicit: false, doc: None, fields: Vec::new(), sub: None, tuple: false });
            }
            if level == 1 {
                // the top of the chain is a variant of the first member
                let root = g.enums.get_mut(&roots[0].enum_id).unwrap();
                root.variants.extend(variants);
            } else {
                g.enums.insert(id.clone(), EnumM { id: id.clone(), variants, lt: false, help_title: None, svc: 0 });
                next = Some(id);
            }
        }
    }
    let mut enums = std::mem::take(&mut g.enums);
    // "command groups try their members in order": now and then a hidden member declared before a visible one answers to
    // the same command name (the hidden member, being first, must win when the line is parsed; help and completion only
    // know the visible one)
    if grouped && g.r.chance(35) {
        let hid: Vec<usize> = (0..roots.len()).filter(|i| roots[*i].hidden).collect();
        let pairs: Vec<(usize, usize)> = hid.iter().flat_map(|h| (h + 1..roots.len()).filter(|v| !roots[*v].hidden && roots[*v].enum_id != "RAW").map(move |v| (*h, v))).collect();
        if !pairs.is_empty() {
            let (h, v) = pairs[g.r.below(pairs.len())];
            let hname = {
                let hv = &enums[&roots[h].enum_id].variants;
                hv[g.r.below(hv.len())].name.clone()
            };
            let vv = &mut enums.get_mut(&roots[v].enum_id).unwrap().variants;
            let k = g.r.below(vv.len());
            vv[k].name = hname;
            vv[k].explicit = true;
        }
    }
    // one member whose Help or Autocomplete is written by hand (`#[command(skip_help)]` / `skip_autocomplete`): help asks
    // only the Help of a member, completion only its Autocomplete
    if grouped && !help_names && g.r.chance(30) {
        let cand: Vec<usize> = (0..roots.len()).filter(|i| !roots[*i].hidden && roots[*i].enum_id != "RAW").collect();
        if cand.len() >= 2 {
            let k = cand[g.r.below(cand.len())];
            let svc = 1 + g.r.below(2) as u8;
            roots[k].svc = svc;
            enums.get_mut(&roots[k].enum_id).unwrap().svc = svc;
        }
    }
    // a group inside the group: two or three neighbouring members are wrapped in a command group of their own
    if grouped && g.r.chance(25) {
        let cand: Vec<usize> = (0..roots.len()).filter(|i| roots[*i].enum_id != "RAW").collect();
        if cand.len() >= 2 {
            let start = g.r.below(cand.len() - 1);
            let len = 2 + g.r.below((cand.len() - start - 1).min(2));
            for k in start..start + len {
                roots[cand[k]].nest = Some("Nest".to_string());
            }
        }
    }
    let ids: Vec<String> = enums.keys().cloned().collect();
    let mut subgroups = std::mem::take(&mut g.subgroups);
    for id in &ids {
        let lt = needs_lt(id, &enums, &subgroups);
        enums.get_mut(id).unwrap().lt = lt;
    }
    let gids: Vec<String> = subgroups.keys().cloned().collect();
    for id in &gids {
        let lt = needs_lt(id, &enums, &subgroups);
        subgroups.get_mut(id).unwrap().lt = lt;
    }
    let root_lt = roots.iter().any(|r| r.enum_id == "RAW" || enums[&r.enum_id].lt);
    Decl {
        id,
        enums,
        roots,
        grouped,
        root_lt,
        help_names,
        subgroups,
    }
}

// ------------------------------------------------------------------------------------------------
// source emission

/// Doc text and the item's own attribute line(s) `own` (already indented, newline-terminated, may be empty) in the
/// order the style asks for.
fn emit_doc_around(out: &mut String, indent: &str, d: &Option<DocM>, own: &str) {
    let style = d.as_ref().map(|d| d.style).unwrap_or(0);
    match (d, style) {
        (Some(d), 4) | (Some(d), 6) => {
            let mid = if style == 4 { format!("{}#[allow(unused)]\n", indent) } else { own.to_string() };
            for (i, l) in d.lines.iter().enumerate() {
                if l.is_empty() {
                    out.push_str(&format!("{}///\n", indent));
                } else {
                    out.push_str(&format!("{}/// {}\n", indent, l));
                }
                if i == 0 {
                    out.push_str(&mid);
                }
            }
            if style == 4 {
                out.push_str(own);
            }
        }
        (Some(_), 5) => {
            out.push_str(own);
            let plain = d.clone().map(|mut x| {
                x.style = 0;
                x
            });
            emit_doc_plain(out, indent, &plain);
        }
        _ => {
            emit_doc_plain(out, indent, d);
            out.push_str(own);
        }
    }
}

fn emit_doc_plain(out: &mut String, indent: &str, d: &Option<DocM>) {
    if let Some(d) = d {
        match d.style {
            1 | 2 => {
                for l in &d.lines {
                    let lead = if d.style == 1 && !l.is_empty() { " " } else { "" };
                    out.push_str(&format!("{}#[doc = \"{}{}\"]\n", indent, lead, l));
                }
                return;
            }
            7 => {
                // paragraphs: runs of non-empty lines; the first blank line behind a run is the run's own trailing line feed,
                // further blank lines are attributes of their own
                let mut i = 0;
                while i < d.lines.len() {
                    if d.lines[i].is_empty() {
                        out.push_str(&format!("{}#[doc = \"\"]\n", indent));
                        i += 1;
                        continue;
                    }
                    let mut run: Vec<String> = Vec::new();
                    while i < d.lines.len() && !d.lines[i].is_empty() {
                        run.push(format!(" {}", d.lines[i]));
                        i += 1;
                    }
                    let followed = i < d.lines.len();
                    if followed {
                        i += 1; // the blank line right behind the run
                    }
                    out.push_str(&format!("{}#[doc = \"{}{}\"]\n", indent, run.join("\\n"), if followed { "\\n" } else { "" }));
                }
                return;
            }
            3 => {
                let body: Vec<String> = d.lines.iter().map(|l| if l.is_empty() { String::new() } else { format!(" {}", l) }).collect();
                out.push_str(&format!("{}#[doc = \"\\n{}\"]\n", indent, body.join("\\n")));
                return;
            }
            _ => {}
        }
        for l in &d.lines {
            if l.is_empty() {
                out.push_str(&format!("{}///\n", indent));
            } else {
                out.push_str(&format!("{}/// {}\n", indent, l));
            }
        }
    }
}

fn lt(b: bool) -> &'static str {
    if b {
        "<'a>"
    } else {
        ""
    }
}

fn emit_enum(en: &EnumM, enums: &BTreeMap<String, EnumM>, groups: &BTreeMap<String, SubGroupM>) -> String {
    let mut o = String::new();
    o.push_str("#[derive(Debug, Command)]\n");
    if en.svc == 1 {
        o.push_str("#[command(skip_help)]\n");
    } else if en.svc == 2 {
        o.push_str("#[command(skip_autocomplete)]\n");
    }
    if let Some(t) = &en.help_title {
        o.push_str(&format!("#[command(help_title = \"{}\")]\n", t));
    }
    o.push_str(&format!("pub enum {}{} {{\n", en.id, lt(en.lt)));
    let subty = |s: &SubM| {
        let t = match groups.get(&s.enum_id) {
            Some(g) => format!("{}{}", g.id, lt(g.lt)),
            None => format!("{}{}", enums[&s.enum_id].id, lt(enums[&s.enum_id].lt)),
        };
        if s.optional {
            format!("Option<{}>", t)
        } else {
            t
        }
    };
    for v in &en.variants {
        let mut attrs = Vec::new();
        if v.explicit {
            attrs.push(format!("name = \"{}\"", v.name));
        }
        if v.tuple {
            attrs.push("subcommand".to_string());
        }
        let own = if attrs.is_empty() { String::new() } else { format!("    #[command({})]\n", attrs.join(", ")) };
        emit_doc_around(&mut o, "    ", &v.doc, &own);
        if v.tuple {
            o.push_str(&format!("    {}({}),\n", v.ident, subty(v.sub.as_ref().unwrap())));
        } else if v.fields.is_empty() && v.sub.is_none() {
            o.push_str(&format!("    {},\n", v.ident));
        } else {
            o.push_str(&format!("    {} {{\n", v.ident));
            for f in &v.fields {
                let mut a = Vec::new();
                if let Some(s) = f.short {
                    a.push(if f.short_gen {
                        "short".to_string()
                    } else if f.short_str {
                        format!("short = \"{}\"", s)
                    } else {
                        format!("short = '{}'", s)
                    });
                }
                if let Some(l) = &f.long {
                    a.push(if f.long_gen { "long".to_string() } else { format!("long = \"{}\"", l) });
                }
                match &f.default {
                    Some(DefaultM::Str(s)) => a.push(format!("default_value = \"{}\"", s)),
                    Some(DefaultM::Expr(e, _)) => a.push(format!("default_value_t = {}", e)),
                    Some(DefaultM::Bare) => a.push("default_value_t".to_string()),
                    None => {}
                }
                if let Some(vn) = &f.value_name {
                    a.push(format!("value_name = \"{}\"", vn));
                }
                let own = if a.is_empty() {
                    String::new()
                } else if f.arg_split > 0 && a.len() >= 2 {
                    let k = (f.arg_split as usize).min(a.len() - 1);
                    format!("        #[arg({})]\n        #[arg({})]\n", a[..k].join(", "), a[k..].join(", "))
                } else {
                    format!("        #[arg({})]\n", a.join(", "))
                };
                emit_doc_around(&mut o, "        ", &f.doc, &own);
                let ty = if f.optional {
                    format!("{}Option<{}>", ["", "core::option::", "std::option::"][f.opt_path as usize % 3], f.ty)
                } else {
                    f.ty.clone()
                };
                o.push_str(&format!("        {}: {},\n", f.name, ty));
            }
            if let Some(s) = &v.sub {
                o.push_str("        #[command(subcommand)]\n");
                o.push_str(&format!("        {}: {},\n", s.field.as_ref().unwrap(), subty(s)));
            }
            o.push_str("    },\n");
        }
    }
    o.push_str("}\n\n");
    o
}

/// Source of one declaration as a module `d<id>` exposing `pub struct Set;` that implements `CmdSet`
pub fn emit_module(d: &Decl) -> String {
    let mut o = String::new();
    o.push_str(&format!("pub mod d{} {{\n    #![allow(dead_code, unused, non_camel_case_types)]\n    use embedded_cli::{{Command, CommandGroup}};\n    use embedded_cli::command::RawCommand;\n\n", d.id));
    let mut body = String::new();
    let mut mods = String::new();
    for e in d.enums.values() {
        body.push_str(&emit_enum(e, &d.enums, &d.subgroups));
        let (il, tl) = if e.lt { ("<'a>", "<'a>") } else { ("", "") };
        if e.svc == 1 {
            body.push_str(&format!(
                "impl{il} embedded_cli::service::Help for {id}{tl} {{\n    fn command_count() -> usize {{ 0 }}\n    fn list_commands<WW: embedded_io::Write<Error = EE>, EE: embedded_io::Error>(_writer: &mut embedded_cli::writer::Writer<'_, WW, EE>) -> Result<(), EE> {{ Ok(()) }}\n    fn command_help<WW: embedded_io::Write<Error = EE>, EE: embedded_io::Error, FF: FnMut(&mut embedded_cli::writer::Writer<'_, WW, EE>) -> Result<(), EE>>(_parent: &mut FF, _command: RawCommand<'_>, _writer: &mut embedded_cli::writer::Writer<'_, WW, EE>) -> Result<(), embedded_cli::service::HelpError<EE>> {{ Err(embedded_cli::service::HelpError::UnknownCommand) }}\n}}\n\n",
                il = il, tl = tl, id = e.id
            ));
        } else if e.svc == 2 {
            body.push_str(&format!(
                "impl{il} embedded_cli::service::Autocomplete for {id}{tl} {{\n    fn autocomplete(_request: embedded_cli::autocomplete::Request<'_>, _autocompletion: &mut embedded_cli::autocomplete::Autocompletion<'_>) {{}}\n}}\n\n",
                il = il, tl = tl, id = e.id
            ));
        }
    }
    for g in d.subgroups.values() {
        body.push_str(&format!("#[derive(Debug, CommandGroup)]\npub enum {}{} {{\n", g.id, lt(g.lt)));
        for m in &g.members {
            if m.hidden {
                body.push_str("    #[group(hidden)]\n");
            } else if (d.id + g.id.len()) % 3 == 0 {
                body.push_str("    #[group(hidden = false)]\n");
            }
            if (d.id + g.id.len()) % 4 == 2 {
                // every member type is called `Commands` in a module of its own (`led::Commands`, `adc::Commands`)
                let l = lt(d.enums[&m.enum_id].lt);
                body.push_str(&format!("    {}({}_{}::Commands{}),\n", m.ident, g.id.to_lowercase(), m.ident.to_lowercase(), l));
                mods.push_str(&format!("pub mod {}_{} {{\n    pub type Commands{} = super::{}{};\n}}\n\n", g.id.to_lowercase(), m.ident.to_lowercase(), l, m.enum_id, l));
            } else {
                body.push_str(&format!("    {}({}{}),\n", m.ident, m.enum_id, lt(d.enums[&m.enum_id].lt)));
            }
        }
        body.push_str("}\n\n");
    }
    if d.grouped {
        body.push_str(&format!("#[derive(Debug, CommandGroup)]\npub enum Root{} {{\n", lt(d.root_lt)));
        let mut nest_done = false;
        for r in &d.roots {
            if let Some(n) = &r.nest {
                if nest_done {
                    continue;
                }
                nest_done = true;
                let inner: Vec<&RootM> = d.roots.iter().filter(|x| x.nest.as_ref() == Some(n)).collect();
                let all_hidden = inner.iter().all(|x| x.hidden);
                let l = lt(inner.iter().any(|x| d.enums[&x.enum_id].lt));
                // when every member of the inner group is hidden, the inner group is hidden as a whole (one attribute outside)
                if all_hidden {
                    body.push_str("    #[group(hidden)]\n");
                }
                body.push_str(&format!("    {}({}G{}),\n", n, n, l));
                mods.push_str(&format!("#[derive(Debug, CommandGroup)]\npub enum {}G{} {{\n", n, l));
                for x in inner {
                    if x.hidden && !all_hidden {
                        mods.push_str("    #[group(hidden)]\n");
                    }
                    mods.push_str(&format!("    {}({}{}),\n", x.ident, x.enum_id, lt(d.enums[&x.enum_id].lt)));
                }
                mods.push_str("}\n\n");
                continue;
            }
            if r.hidden {
                // the bare word and the explicit `= true` are the same thing
                body.push_str(if (d.id + *r.ident.as_bytes().last().unwrap() as usize) % 2 == 0 { "    #[group(hidden)]\n" } else { "    #[group(hidden = true)]\n" });
            } else if r.enum_id != "RAW" && (d.id + *r.ident.as_bytes().last().unwrap() as usize) % 3 == 0 {
                // spelled out, a member is visible with `hidden = false`
                body.push_str("    #[group(hidden = false)]\n");
            }
            if r.enum_id == "RAW" {
                body.push_str(&format!("    {}(RawCommand<'a>),\n", r.ident));
            } else if d.id % 4 == 2 {
                // member types that share their name and differ only in the path that leads to them
                let l = lt(d.enums[&r.enum_id].lt);
                body.push_str(&format!("    {}(root_{}::Commands{}),\n", r.ident, r.ident.to_lowercase(), l));
                mods.push_str(&format!("pub mod root_{} {{\n    pub type Commands{} = super::{}{};\n}}\n\n", r.ident.to_lowercase(), l, r.enum_id, l));
            } else {
                body.push_str(&format!("    {}({}{}),\n", r.ident, r.enum_id, lt(d.enums[&r.enum_id].lt)));
            }
        }
        body.push_str("}\n\n");
    } else {
        let r = &d.roots[0];
        body.push_str(&format!("pub type Root{} = {}{};\n\n", lt(d.root_lt), r.enum_id, lt(d.root_lt)));
    }
    body.push_str(&mods);
    let names: Vec<String> = d.visible_names().iter().map(|n| format!("{:?}.to_string()", n)).collect();
    body.push_str(&format!(
        "pub struct Set;\nimpl vmodel::session::CmdSet for Set {{\n    type C = Root{st};\n    const NAME: &'static str = \"d{id}\";\n    fn names() -> Vec<String> {{ vec![{names}] }}\n    fn parse<'a>(raw: RawCommand<'a>) -> Result<String, embedded_cli::service::ParseError<'a>> {{\n        <Root{a} as embedded_cli::service::FromRaw<'a>>::parse(raw).map(|c| format!(\"{{:?}}\", c))\n    }}\n    vmodel::impl_via_processor!(Root{u});\n}}\n",
        u = if d.root_lt { "<'_>" } else { "" },
        st = if d.root_lt { "<'static>" } else { "" },
        a = if d.root_lt { "<'a>" } else { "" },
        id = d.id,
        names = names.join(", "),
    ));
    for l in body.lines() {
        if l.is_empty() {
            o.push('\n');
        } else {
            o.push_str("    ");
            o.push_str(l);
            o.push('\n');
        }
    }
    o.push_str("}\n");
    // (the lifetime parameter is always called 'a: the derive macros name it so in the code they emit, and a declaration
    // that calls it anything else does not compile - outside "every command enum the derive macros accept", see DESIGN 5.4)
    o
}

// ------------------------------------------------------------------------------------------------
// canonical value parsing (the field type's own FromStr) and Debug rendering

pub fn parse_val(ty: &str, v: &str) -> Option<String> {
    macro_rules! p {
        ($t:ty) => {
            v.parse::<$t>().ok().map(|x| format!("{:?}", x))
        };
    }
    match ty {
        "u8" => p!(u8),
        "i8" => p!(i8),
        "u16" => p!(u16),
        "i16" => p!(i16),
        "u32" => p!(u32),
        "i32" => p!(i32),
        "u64" => p!(u64),
        "i64" => p!(i64),
        "u128" => p!(u128),
        "i128" => p!(i128),
        "usize" => p!(usize),
        "isize" => p!(isize),
        "f32" => p!(f32),
        "f64" => p!(f64),
        "bool" => p!(bool),
        "char" => p!(char),
        "&'a str" => Some(format!("{:?}", v)),
        other => panic!("unknown type {}", other),
    }
}

pub fn type_name(ty: &str) -> &str {
    // the `expected` payload of ParseValueError is stringify!(type) for FromStr types
    ty
}

fn default_dbg(f: &FieldM) -> String {
    match f.default.as_ref().unwrap() {
        DefaultM::Str(s) | DefaultM::Expr(_, s) => parse_val(&f.ty, s).expect("generated defaults parse"),
        DefaultM::Bare => match f.ty.as_str() {
            "bool" => "false".into(),
            "char" => "'\\0'".into(),
            "f32" | "f64" => "0.0".into(),
            "&'a str" => "\"\"".into(),
            _ => "0".into(),
        },
    }
}

pub fn full_name(f: &FieldM) -> String {
    let vn = f.value_name.clone().unwrap_or_else(|| f.name.to_uppercase());
    let prefix = || {
        if let Some(l) = &f.long {
            format!("--{}", l)
        } else {
            format!("-{}", f.short.unwrap())
        }
    };
    match f.kind {
        Kind::Flag => prefix(),
        Kind::Opt => {
            if f.optional {
                format!("{} [{}]", prefix(), vn)
            } else {
                format!("{} <{}>", prefix(), vn)
            }
        }
        Kind::Pos => {
            if f.optional {
                format!("[{}]", vn)
            } else {
                format!("<{}>", vn)
            }
        }
    }
}

// ------------------------------------------------------------------------------------------------
// reference interpreter

#[derive(Clone, Debug, PartialEq, Eq)]
pub enum Expect {
    /// Debug rendering of the parsed value
    Ok(String),
    /// any of these errors (more than one only where the statement allows either)
    Err(Vec<PErr>),
    /// the catch-all RawCommand member takes it (`ident(RawCommand {`)
    Raw(String),
    /// left open by the property
    Unspec(&'static str),
}

fn parse_enum(d: &Decl, eid: &str, name: &str, tokens: &[String]) -> Expect {
    let en = &d.enums[eid];
    let Some(v) = en.variants.iter().find(|v| v.name == name) else {
        return Expect::Err(vec![PErr::UnknownCommand]);
    };
    if v.fields.is_empty() && v.sub.is_none() {
        // unit variants do not look at their arguments
        return Expect::Ok(v.ident.clone());
    }
    let items = ref_classify(tokens);
    // token index of each item (needed to hand the rest of the tokens to a sub-command)
    let mut tok_of: Vec<usize> = Vec::new();
    {
        let mut values_only = false;
        for (ti, t) in tokens.iter().enumerate() {
            if values_only {
                tok_of.push(ti);
            } else if t == "--" {
                values_only = true;
                tok_of.push(ti);
            } else if t.starts_with("--") {
                tok_of.push(ti);
            } else if t.starts_with('-') && t.len() > 1 {
                for _ in t[1..].chars() {
                    tok_of.push(ti);
                }
            } else {
                tok_of.push(ti);
            }
        }
    }
    let pos: Vec<&FieldM> = v.fields.iter().filter(|f| f.kind == Kind::Pos).collect();
    let mut vals: BTreeMap<String, String> = BTreeMap::new();
    let mut expect: Option<&FieldM> = None;
    let mut pi = 0;
    let mut subres: Option<String> = None;
    let mut i = 0;
    while i < items.len() {
        let it = &items[i];
        let ti = tok_of[i];
        i += 1;
        match it {
            RArg::Long(_) | RArg::Short(_) => {
                let f = v.fields.iter().find(|f| {
                    f.kind != Kind::Pos
                        && match it {
                            RArg::Long(n) => f.long.as_deref() == Some(n.as_str()),
                            RArg::Short(c) => f.short == Some(*c),
                            _ => false,
                        }
                });
                if expect.is_some() {
                    return Expect::Unspec("an option is still waiting for its value when another option arrives");
                }
                let Some(f) = f else {
                    return Expect::Err(vec![match it {
                        RArg::Long(n) => PErr::UnexpectedLongOption(n.clone()),
                        RArg::Short(c) => PErr::UnexpectedShortOption(*c),
                        _ => unreachable!(),
                    }]);
                };
                if vals.contains_key(&f.name) {
                    return Expect::Unspec("the same option twice");
                }
                if f.kind == Kind::Flag {
                    vals.insert(f.name.clone(), "true".into());
                } else {
                    expect = Some(f);
                }
            }
            RArg::DoubleDash => {
                // `--` only ends option parsing: an option that is waiting for its value still gets
                // the next (now plain) value - the only way to hand it a value starting with a dash
                if v.sub.is_some() {
                    return Expect::Unspec("`--` before a sub-command name");
                }
            }
            RArg::Value(x) => {
                if let Some(f) = expect {
                    match parse_val(&f.ty, x) {
                        Some(dv) => {
                            vals.insert(f.name.clone(), dv);
                        }
                        None => return Expect::Err(vec![PErr::ParseValueError(x.clone(), type_name(&f.ty).to_string())]),
                    }
                    expect = None;
                } else if let Some(s) = &v.sub {
                    match parse_sub(d, &s.enum_id, x, &tokens[ti + 1..]) {
                        Expect::Ok(r) => subres = Some(r),
                        other => return other,
                    }
                    break;
                } else if pi < pos.len() {
                    let f = pos[pi];
                    match parse_val(&f.ty, x) {
                        Some(dv) => {
                            vals.insert(f.name.clone(), dv);
                        }
                        None => return Expect::Err(vec![PErr::ParseValueError(x.clone(), type_name(&f.ty).to_string())]),
                    }
                    pi += 1;
                } else {
                    return Expect::Err(vec![PErr::UnexpectedArgument(x.clone())]);
                }
            }
        }
    }
    if expect.is_some() {
        return Expect::Unspec("an option is still waiting for its value at the end of the line");
    }
    // first missing required argument, in declaration order (sub-command last); when a missing
    // positional is declared before a missing option, the usage-line order would name the option:
    // either is accepted
    let mut parts: Vec<String> = Vec::new();
    let mut missing: Vec<&FieldM> = Vec::new();
    for f in &v.fields {
        let got = vals.get(&f.name);
        if f.optional {
            parts.push(format!("{}: {}", f.name, got.map(|g| format!("Some({})", g)).unwrap_or("None".into())));
        } else if f.kind == Kind::Flag {
            parts.push(format!("{}: {}", f.name, got.cloned().unwrap_or("false".into())));
        } else if let Some(g) = got {
            parts.push(format!("{}: {}", f.name, g));
        } else if f.default.is_some() {
            parts.push(format!("{}: {}", f.name, default_dbg(f)));
        } else {
            missing.push(f);
        }
    }
    if let Some(first) = missing.first() {
        let mut allowed = vec![PErr::MissingRequiredArgument(full_name(first))];
        if first.kind == Kind::Pos {
            if let Some(opt) = missing.iter().find(|f| f.kind != Kind::Pos) {
                allowed.push(PErr::MissingRequiredArgument(full_name(opt)));
            }
        }
        return Expect::Err(allowed);
    }
    if let Some(s) = &v.sub {
        if subres.is_none() && !s.optional {
            return Expect::Err(vec![PErr::MissingRequiredArgument("<COMMAND>".into())]);
        }
        let sv = if s.optional { subres.map(|r| format!("Some({})", r)).unwrap_or("None".into()) } else { subres.unwrap() };
        if v.tuple {
            return Expect::Ok(format!("{}({})", v.ident, sv));
        }
        parts.push(format!("{}: {}", s.field.as_ref().unwrap(), sv));
    }
    Expect::Ok(format!("{} {{ {} }}", v.ident, parts.join(", ")))
}

/// A sub-command position: an enum, or a command group whose members are tried in order
fn parse_sub(d: &Decl, id: &str, name: &str, tokens: &[String]) -> Expect {
    for (eid, _hidden, wrap) in d.sub_members(id) {
        match parse_enum(d, &eid, name, tokens) {
            Expect::Err(ref e) if e == &vec![PErr::UnknownCommand] => {
                if wrap.is_none() {
                    return Expect::Err(vec![PErr::UnknownCommand]);
                }
                // (names are unique across the members and there is no catch-all here: a member that knows the name
                // but not what follows it still ends in "unknown command")
                continue;
            }
            Expect::Ok(s) => {
                return Expect::Ok(match wrap {
                    Some(w) => format!("{}({})", w, s),
                    None => s,
                })
            }
            other => return other,
        }
    }
    Expect::Err(vec![PErr::UnknownCommand])
}

/// What parsing `name tokens...` must yield for this declaration
pub fn ref_parse(d: &Decl, name: &str, tokens: &[String]) -> Expect {
    if !d.grouped {
        return parse_enum(d, &d.roots[0].enum_id, name, tokens);
    }
    for r in &d.roots {
        if r.enum_id == "RAW" {
            return Expect::Raw(format!("{}(RawCommand {{", r.ident));
        }
        let res = parse_enum(d, &r.enum_id, name, tokens);
        match res {
            Expect::Err(ref e) if e == &vec![PErr::UnknownCommand] => {
                if d.enums[&r.enum_id].variants.iter().any(|v| v.name == name) {
                    return Expect::Unspec("an unknown nested sub-command inside a group member");
                }
                continue;
            }
            Expect::Ok(s) => {
                return Expect::Ok(match &r.nest {
                    Some(n) => format!("{}({}({}))", n, r.ident, s),
                    None => format!("{}({})", r.ident, s),
                })
            }
            other => return other,
        }
    }
    Expect::Err(vec![PErr::UnknownCommand])
}

// ------------------------------------------------------------------------------------------------
// help facts

#[derive(Clone, Debug, PartialEq, Eq)]
pub enum HelpExpect {
    /// `help`: every command of every visible group listed once, with its summary
    All,
    /// help of the command reached by this path of names, in this enum
    Command { path: Vec<String>, enum_id: String, ident: String },
    Unknown,
    Unspec(&'static str),
}

/// Where a help request `name args...` (the command named `name` with these argument tokens, one
/// of which may be -h/--help) ends up.
pub fn ref_help_target(d: &Decl, name: &str, tokens: &[String]) -> HelpExpect {
    for r in &d.roots {
        if !r.in_help() {
            continue;
        }
        if d.enums[&r.enum_id].variants.iter().any(|v| v.name == name) {
            return help_in_enum(d, &r.enum_id, name, tokens, vec![]);
        }
    }
    HelpExpect::Unknown
}

fn help_in_enum(d: &Decl, eid: &str, name: &str, tokens: &[String], mut path: Vec<String>) -> HelpExpect {
    let Some(v) = d.enums[eid].variants.iter().find(|v| v.name == name) else {
        return HelpExpect::Unknown;
    };
    path.push(name.to_string());
    let here = HelpExpect::Command {
        path: path.clone(),
        enum_id: eid.to_string(),
        ident: v.ident.clone(),
    };
    let Some(sub) = &v.sub else {
        // a leaf prints its own help; extra words after a leaf command are left open
        let items = ref_classify(tokens);
        let mut before_help = true;
        for it in &items {
            match it {
                RArg::Long(n) if n == "help" => before_help = false,
                RArg::Short('h') => before_help = false,
                RArg::Value(_) if before_help => {}
                _ => {}
            }
        }
        return here;
    };
    // scan the parent's options up to the sub-command name
    let items = ref_classify(tokens);
    let mut ti_of = Vec::new();
    {
        let mut values_only = false;
        for (ti, t) in tokens.iter().enumerate() {
            if values_only || t == "--" || t.starts_with("--") || !(t.starts_with('-') && t.len() > 1) {
                if t == "--" && !values_only {
                    values_only = true;
                }
                ti_of.push(ti);
            } else {
                for _ in t[1..].chars() {
                    ti_of.push(ti);
                }
            }
        }
    }
    let mut expect = false;
    for (i, it) in items.iter().enumerate() {
        match it {
            RArg::Long(_) | RArg::Short(_) => {
                let f = v.fields.iter().find(|f| match it {
                    RArg::Long(n) => f.long.as_deref() == Some(n.as_str()),
                    RArg::Short(c) => f.short == Some(*c),
                    _ => false,
                });
                match f {
                    Some(f) => {
                        if expect {
                            return HelpExpect::Unspec("option waiting for a value in a help line");
                        }
                        expect = f.kind == Kind::Opt;
                    }
                    None => return here, // help option or unknown option: help for this level
                }
            }
            RArg::DoubleDash => return HelpExpect::Unspec("`--` in a help line"),
            RArg::Value(x) => {
                if expect {
                    expect = false;
                } else {
                    // a command group as sub-command type: the first visible member that knows the name
                    for (eid, hidden, _) in d.sub_members(&sub.enum_id) {
                        if hidden {
                            continue;
                        }
                        if d.enums[&eid].variants.iter().any(|v| v.name == *x) {
                            return help_in_enum(d, &eid, x, &tokens[ti_of[i] + 1..], path);
                        }
                    }
                    return HelpExpect::Unknown;
                }
            }
        }
    }
    here
}
