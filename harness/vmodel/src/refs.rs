//! Reference models written from the property statements (C04, C05, C07, C08, C10, C11, C13).
//! None of this code is derived from the library's implementation.

use serde::{Deserialize, Serialize};

// ------------------------------------------------------------------------------------------------
// C04: byte stream -> key events

#[derive(Clone, Copy, Debug, PartialEq, Eq, Hash, Serialize, Deserialize)]
pub enum Key {
    Char(char),
    Backspace,
    Tab,
    Enter,
    Up,
    Down,
    Right,
    Left,
}

#[derive(Clone, Copy, Debug, PartialEq, Eq)]
enum DecState {
    Normal,
    /// previous byte was ESC
    Esc,
    /// inside ESC [ ... waiting for the final byte
    Csi,
}

/// Byte-level reference decoder.
///
/// * well-formed UTF-8 scalar >= U+0020 -> Char (DEL is reported as `Char('\x7f')`, callers that
///   care keep DEL out of the input: its treatment is left open by C04)
/// * BS, TAB -> Backspace, Tab
/// * CR, LF, or adjacent CR LF / LF CR pairs read greedily -> one Enter
/// * ESC [ params final: A/B/C/D -> arrows, other finals nothing, no byte leaks
/// * every other C0 byte (incl. lone ESC) ignored
/// * ill-formed UTF-8 is dropped (maximal-subpart, like std's lossy decoding minus U+FFFD)
#[derive(Clone, Debug)]
pub struct RefDecoder {
    state: DecState,
    /// Some(b) if the previous byte was terminator b and it has produced an Enter
    /// (i.e. it is available as the first half of a pair)
    pair_open: Option<u8>,
    pending: Vec<u8>,
    /// set when a byte arrived in a situation the properties leave open
    pub unspecified: bool,
}

impl Default for RefDecoder {
    fn default() -> Self {
        Self::new()
    }
}

impl RefDecoder {
    pub fn new() -> Self {
        Self {
            state: DecState::Normal,
            pair_open: None,
            pending: Vec::new(),
            unspecified: false,
        }
    }

    pub fn in_csi(&self) -> bool {
        self.state == DecState::Csi
    }

    pub fn mid_char(&self) -> bool {
        !self.pending.is_empty()
    }

    pub fn accept(&mut self, b: u8) -> Option<Key> {
        match self.state {
            DecState::Csi => {
                if (0x40..=0x7E).contains(&b) {
                    self.state = DecState::Normal;
                    self.pair_open = None;
                    return match b {
                        b'A' => Some(Key::Up),
                        b'B' => Some(Key::Down),
                        b'C' => Some(Key::Right),
                        b'D' => Some(Key::Left),
                        _ => None,
                    };
                }
                if !(0x20..=0x3F).contains(&b) {
                    // controls, ESC or high bytes inside a CSI: left open
                    self.unspecified = true;
                }
                return None;
            }
            DecState::Esc => {
                if b == b'[' {
                    self.state = DecState::Csi;
                    self.pair_open = None;
                    return None;
                }
                // lone ESC: ignored, this byte is handled normally
                self.state = DecState::Normal;
            }
            DecState::Normal => {}
        }

        let pair = self.pair_open.take();
        if b < 0x20 && !self.pending.is_empty() {
            // control inside a multi-byte character: left open
            self.unspecified = true;
            self.pending.clear();
        }
        match b {
            0x1B => {
                self.state = DecState::Esc;
                None
            }
            0x08 => Some(Key::Backspace),
            0x09 => Some(Key::Tab),
            0x0D | 0x0A => {
                let other = if b == 0x0D { 0x0A } else { 0x0D };
                if pair == Some(other) {
                    // second half of an adjacent pair: swallowed, and it cannot pair again
                    None
                } else {
                    self.pair_open = Some(b);
                    Some(Key::Enter)
                }
            }
            0x00..=0x1F => None,
            _ => self.push_text(b),
        }
    }

    fn push_text(&mut self, b: u8) -> Option<Key> {
        self.pending.push(b);
        match core::str::from_utf8(&self.pending) {
            Ok(s) => {
                let c = s.chars().next().unwrap();
                self.pending.clear();
                Some(Key::Char(c))
            }
            Err(e) if e.error_len().is_none() => None,
            Err(_) => {
                let alone = self.pending.len() == 1;
                self.pending.clear();
                if alone {
                    None
                } else {
                    // the pending prefix was a truncated sequence: drop it, reconsider this byte
                    self.push_text(b)
                }
            }
        }
    }

    pub fn decode_all(bytes: &[u8]) -> (Vec<(usize, Key)>, bool) {
        let mut d = RefDecoder::new();
        let mut out = Vec::new();
        for (i, &b) in bytes.iter().enumerate() {
            if let Some(k) = d.accept(b) {
                out.push((i, k));
            }
        }
        (out, d.unspecified)
    }
}

// ------------------------------------------------------------------------------------------------
// C07: tokenisation

/// Tokens of a line according to the documented quoting rules.
/// `None` = the line touches an escape the rules leave open (inside quotes a backslash followed
/// by anything but `"` or `\`, or a dangling final backslash inside quotes), or contains NUL.
pub fn ref_tokens(line: &str) -> Option<Vec<String>> {
    let chars: Vec<char> = line.chars().collect();
    let mut out = Vec::new();
    let mut i = 0;
    while i < chars.len() {
        let c = chars[i];
        if c == '\0' {
            return None;
        }
        if c == ' ' {
            i += 1;
            continue;
        }
        if c == '"' {
            // quoted token: up to the next unescaped quote or end of line
            i += 1;
            let mut tok = String::new();
            loop {
                if i >= chars.len() {
                    break;
                }
                let c = chars[i];
                if c == '\0' {
                    return None;
                }
                if c == '"' {
                    i += 1;
                    break;
                }
                if c == '\\' {
                    if i + 1 >= chars.len() {
                        return None; // dangling backslash
                    }
                    let n = chars[i + 1];
                    if n == '"' || n == '\\' {
                        tok.push(n);
                        i += 2;
                        continue;
                    }
                    return None; // other escapes are left open
                }
                tok.push(c);
                i += 1;
            }
            out.push(tok);
        } else {
            // plain token: up to the next space; quotes and backslashes inside are literal
            let mut tok = String::new();
            while i < chars.len() && chars[i] != ' ' {
                if chars[i] == '\0' {
                    return None;
                }
                tok.push(chars[i]);
                i += 1;
            }
            out.push(tok);
        }
    }
    Some(out)
}

/// One position of an expected token when the line touches an escape the rules leave open
#[derive(Clone, Debug, PartialEq, Eq)]
pub enum Pc {
    Lit(char),
    /// inside quotes, a backslash followed by `c` (neither quote nor backslash): the token carries `c` or `\c`
    Esc(char),
    /// a backslash as the very last character of the line, inside quotes: nothing or a backslash
    Dangling,
}

/// Expected tokens as patterns: everything the quoting rules do fix stays fixed - where tokens start and end,
/// which quote closes a token, every ordinary character - and only the open escapes are left as a choice.
/// `None` = the line contains NUL.
pub fn ref_token_patterns(line: &str) -> Option<Vec<Vec<Pc>>> {
    let chars: Vec<char> = line.chars().collect();
    if chars.contains(&'\0') {
        return None;
    }
    let mut out = Vec::new();
    let mut i = 0;
    while i < chars.len() {
        let c = chars[i];
        if c == ' ' {
            i += 1;
            continue;
        }
        let mut tok = Vec::new();
        if c == '"' {
            i += 1;
            while i < chars.len() {
                let c = chars[i];
                if c == '"' {
                    i += 1;
                    break;
                }
                if c == '\\' {
                    if i + 1 >= chars.len() {
                        tok.push(Pc::Dangling);
                        i += 1;
                        break;
                    }
                    let n = chars[i + 1];
                    if n == '"' || n == '\\' {
                        tok.push(Pc::Lit(n));
                    } else {
                        tok.push(Pc::Esc(n));
                    }
                    i += 2;
                    continue;
                }
                tok.push(Pc::Lit(c));
                i += 1;
            }
        } else {
            while i < chars.len() && chars[i] != ' ' {
                tok.push(Pc::Lit(chars[i]));
                i += 1;
            }
        }
        out.push(tok);
    }
    Some(out)
}

/// Does the token match the pattern?
pub fn pattern_matches(pat: &[Pc], tok: &str) -> bool {
    let t: Vec<char> = tok.chars().collect();
    let mut i = 0;
    for p in pat {
        match p {
            Pc::Lit(c) => {
                if t.get(i) != Some(c) {
                    return false;
                }
                i += 1;
            }
            Pc::Esc(c) => {
                if t.get(i) == Some(c) {
                    i += 1;
                } else if t.get(i) == Some(&'\\') && t.get(i + 1) == Some(c) {
                    i += 2;
                } else {
                    return false;
                }
            }
            Pc::Dangling => {
                if t.get(i) == Some(&'\\') {
                    i += 1;
                }
            }
        }
    }
    i == t.len()
}

pub fn patterns_match(pats: &[Vec<Pc>], toks: &[String]) -> bool {
    pats.len() == toks.len() && pats.iter().zip(toks).all(|(p, t)| pattern_matches(p, t))
}

/// Does the line open at least one token (used for the count rule when the content is unspecified)
pub fn has_token(line: &str) -> bool {
    line.chars().any(|c| c != ' ' && c != '\0')
}

/// Render a token so that it reads back as exactly that token.
/// `force` quotes even when not necessary.
pub fn quote_token(t: &str, force: bool) -> String {
    let need = t.is_empty() || t.contains(' ') || t.starts_with('"');
    if need || force {
        let mut s = String::from("\"");
        for c in t.chars() {
            if c == '"' || c == '\\' {
                s.push('\\');
            }
            s.push(c);
        }
        s.push('"');
        s
    } else {
        t.to_string()
    }
}

// ------------------------------------------------------------------------------------------------
// C08: argument classification

#[derive(Clone, Debug, PartialEq, Eq, Hash, Serialize, Deserialize)]
pub enum RArg {
    DoubleDash,
    Long(String),
    Short(char),
    Value(String),
}

pub fn ref_classify(tokens: &[String]) -> Vec<RArg> {
    let mut out = Vec::new();
    let mut values_only = false;
    for t in tokens {
        if values_only {
            out.push(RArg::Value(t.clone()));
        } else if t == "--" {
            values_only = true;
            out.push(RArg::DoubleDash);
        } else if let Some(name) = t.strip_prefix("--") {
            out.push(RArg::Long(name.to_string()));
        } else if t.starts_with('-') && t.len() > 1 {
            for c in t[1..].chars() {
                out.push(RArg::Short(c));
            }
        } else {
            out.push(RArg::Value(t.clone()));
        }
    }
    out
}

/// Inverse of classification: re-join classified items into the token list
pub fn rejoin(args: &[RArg], cluster_starts: &[bool]) -> Vec<String> {
    // cluster_starts[i] tells for a Short item whether it begins a new token
    let mut out: Vec<String> = Vec::new();
    for (i, a) in args.iter().enumerate() {
        match a {
            RArg::DoubleDash => out.push("--".into()),
            RArg::Long(n) => out.push(format!("--{}", n)),
            RArg::Value(v) => out.push(v.clone()),
            RArg::Short(c) => {
                if cluster_starts[i] || out.is_empty() {
                    out.push(format!("-{}", c));
                } else {
                    out.last_mut().unwrap().push(*c);
                }
            }
        }
    }
    out
}

/// Is this token list a help request when the help feature is on?
/// Some(true)  = the library must answer it itself,
/// Some(false) = it must reach the handler,
/// None        = left open (`help` followed by an option or `--`).
pub fn is_help_request(tokens: &[String]) -> Option<bool> {
    if tokens.is_empty() {
        return Some(false);
    }
    let args = ref_classify(&tokens[1..]);
    if tokens[0] == "help" {
        return match args.first() {
            None => Some(true),
            Some(RArg::Value(_)) => Some(true),
            _ => None,
        };
    }
    for a in &args {
        match a {
            RArg::DoubleDash => break,
            RArg::Long(n) if n == "help" => return Some(true),
            RArg::Short('h') => return Some(true),
            _ => {}
        }
    }
    Some(false)
}

// ------------------------------------------------------------------------------------------------
// C05: ideal editor over scalar values

#[derive(Clone, Debug, PartialEq, Eq, Hash)]
pub struct RefEditor {
    pub text: Vec<char>,
    pub cursor: usize,
    pub cap: usize,
}

impl RefEditor {
    pub fn new(cap: usize) -> Self {
        Self {
            text: Vec::new(),
            cursor: 0,
            cap,
        }
    }

    pub fn byte_len(&self) -> usize {
        self.text.iter().map(|c| c.len_utf8()).sum()
    }

    pub fn string(&self) -> String {
        self.text.iter().collect()
    }

    /// returns true if accepted
    pub fn insert(&mut self, c: char) -> bool {
        if self.byte_len() + c.len_utf8() > self.cap {
            return false;
        }
        self.text.insert(self.cursor, c);
        self.cursor += 1;
        true
    }

    /// multi-char insert at the cursor (all or nothing)
    pub fn insert_str(&mut self, s: &str) -> bool {
        if self.byte_len() + s.len() > self.cap {
            return false;
        }
        for c in s.chars() {
            self.text.insert(self.cursor, c);
            self.cursor += 1;
        }
        true
    }

    pub fn backspace(&mut self) -> bool {
        if self.cursor == 0 {
            return false;
        }
        self.cursor -= 1;
        self.text.remove(self.cursor);
        true
    }

    /// delete the char at the cursor
    pub fn delete(&mut self) -> bool {
        if self.cursor < self.text.len() {
            self.text.remove(self.cursor);
            true
        } else {
            false
        }
    }

    pub fn left(&mut self) -> bool {
        if self.cursor > 0 {
            self.cursor -= 1;
            true
        } else {
            false
        }
    }

    pub fn right(&mut self) -> bool {
        if self.cursor < self.text.len() {
            self.cursor += 1;
            true
        } else {
            false
        }
    }

    pub fn clear(&mut self) {
        self.text.clear();
        self.cursor = 0;
    }

    /// replace the whole line (recall / completion), cursor at the end
    pub fn set(&mut self, s: &str) {
        self.text = s.chars().collect();
        self.cursor = self.text.len();
    }

    pub fn set_with_cursor(&mut self, s: &str, cursor: usize) {
        self.text = s.chars().collect();
        self.cursor = cursor;
    }
}

// ------------------------------------------------------------------------------------------------
// C10: history

#[derive(Clone, Debug, PartialEq, Eq, Hash)]
pub struct RefHistory {
    /// oldest first
    pub entries: Vec<String>,
    pub cap: usize,
    /// index into entries of the entry currently shown, None = not navigating
    pub pos: Option<usize>,
}

impl RefHistory {
    pub fn new(cap: usize) -> Self {
        Self {
            entries: Vec::new(),
            cap,
            pos: None,
        }
    }

    pub fn used(&self) -> usize {
        self.entries.iter().map(|e| e.len() + 1).sum()
    }

    /// Would this line be recorded at all?
    pub fn records(&self, line: &str) -> bool {
        !line.is_empty() && line.len() + 1 <= self.cap && !line.contains('\0')
    }

    /// Submit a line. Returns true if recorded.
    pub fn push(&mut self, line: &str) -> bool {
        if !self.records(line) {
            return false;
        }
        self.pos = None;
        if let Some(i) = self.entries.iter().position(|e| e == line) {
            self.entries.remove(i);
        }
        while self.used() + line.len() + 1 > self.cap {
            self.entries.remove(0);
        }
        self.entries.push(line.to_string());
        true
    }

    /// Up: Some(line) = that line is shown; None = nothing happens
    pub fn older(&mut self) -> Option<String> {
        let new = match self.pos {
            None if !self.entries.is_empty() => self.entries.len() - 1,
            Some(p) if p > 0 => p - 1,
            _ => return None,
        };
        self.pos = Some(new);
        Some(self.entries[new].clone())
    }

    /// Down: Some(line) = that line is shown; None = moved past the newest (empty line) or
    /// was not navigating
    pub fn newer(&mut self) -> Option<String> {
        match self.pos {
            Some(p) if p + 1 < self.entries.len() => {
                self.pos = Some(p + 1);
                Some(self.entries[p + 1].clone())
            }
            Some(_) => {
                self.pos = None;
                None
            }
            None => None,
        }
    }
}

// ------------------------------------------------------------------------------------------------
// C11: completion

#[derive(Clone, Debug, PartialEq, Eq)]
pub enum Completion {
    /// the line must be unchanged (as text; cursor unchanged too)
    Unchanged,
    /// the line must become exactly this, cursor at the end
    Exactly(String),
    /// the line must be one of these, cursor at the end; or unchanged with the cursor unchanged
    OneOf { allowed: Vec<String>, or_unchanged: bool },
}

/// Longest common prefix over scalar values
pub fn lcp<'a>(items: impl IntoIterator<Item = &'a str>) -> String {
    let mut it = items.into_iter();
    let first: Vec<char> = match it.next() {
        Some(f) => f.chars().collect(),
        None => return String::new(),
    };
    let mut len = first.len();
    for s in it {
        let n = first
            .iter()
            .zip(s.chars())
            .take(len)
            .take_while(|(a, b)| **a == *b)
            .count();
        len = len.min(n);
    }
    first[..len].iter().collect()
}

/// Expected result of Tab.
/// `names`: every name that takes part in completion (visible groups, any order, plus `help` when
/// the caller decides it takes part). `line`/`cursor` (in chars): editor state. `cap`: buffer bytes.
pub fn ref_complete(names: &[String], line: &str, cursor: usize, cap: usize) -> Completion {
    ref_complete_p(names, line, cursor, cap, false)
}

/// `marked`: a hand-written implementation called the public `mark_partial()`; whether the blank after a
/// single match is still appended is then said nowhere (both accepted), everything else stays as stated.
pub fn ref_complete_p(names: &[String], line: &str, cursor: usize, cap: usize, marked: bool) -> Completion {
    // names hold no blanks, so a result ending in a blank is "single match, blank appended"
    let bare = |f: &String| f[..f.len() - 1].to_string();
    match ref_complete_inner(names, line, cursor, cap) {
        Completion::Exactly(f) if marked && f.ends_with(' ') => {
            let b = bare(&f);
            Completion::OneOf { allowed: vec![f, b], or_unchanged: false }
        }
        Completion::OneOf { mut allowed, or_unchanged } if marked => {
            let extra: Vec<String> = allowed.iter().filter(|f| f.ends_with(' ')).map(bare).collect();
            for e in extra {
                if !allowed.contains(&e) {
                    allowed.push(e);
                }
            }
            Completion::OneOf { allowed, or_unchanged }
        }
        other => other,
    }
}

fn ref_complete_inner(names: &[String], line: &str, cursor: usize, cap: usize) -> Completion {
    let nchars = line.chars().count();
    let lead_len = line.len() - line.trim_start_matches(' ').len();
    let body = &line[lead_len..];
    let word_end_rel = body.find(' ').unwrap_or(body.len());
    let word = &body[..word_end_rel];
    let rest = &body[word_end_rel..];
    // Z5: blank line or an argument has been started
    if word.is_empty() || !rest.trim_matches(' ').is_empty() {
        return Completion::Unchanged;
    }
    let trailing = rest.len(); // all blanks
    let word_end_chars = line[..lead_len + word_end_rel].chars().count();
    let matching: Vec<&str> = names
        .iter()
        .map(|s| s.as_str())
        .filter(|n| n.starts_with(word))
        .collect();
    if matching.is_empty() {
        return Completion::Unchanged;
    }
    // distinct names only (duplicates are outside the quantified domain but harmless here)
    let mut distinct: Vec<&str> = matching.clone();
    distinct.sort();
    distinct.dedup();

    let base = &line[..lead_len + word_end_rel];
    let common = lcp(distinct.iter().copied());
    let cont = &common[word.len()..];
    let full = format!("{}{}", base, cont);
    let single = distinct.len() == 1;
    let fits_all = distinct.iter().all(|n| base.len() + (n.len() - word.len()) <= cap);

    let complete = |with_unchanged: bool, unchanged_line: &str| -> Completion {
        if fits_all {
            if single && full.len() + 1 <= cap {
                let mut f = full.clone();
                f.push(' ');
                if with_unchanged {
                    return Completion::OneOf {
                        allowed: vec![f],
                        or_unchanged: true,
                    };
                }
                return Completion::Exactly(f);
            }
            if with_unchanged {
                return Completion::OneOf {
                    allowed: vec![full.clone()],
                    or_unchanged: true,
                };
            }
            return Completion::Exactly(full.clone());
        }
        // some candidate's continuation does not fit: any scalar-boundary prefix of the common
        // continuation, without a space ("buffer space permitting")
        let mut allowed = Vec::new();
        let mut acc = base.to_string();
        allowed.push(acc.clone());
        for c in cont.chars() {
            acc.push(c);
            if acc.len() <= cap {
                allowed.push(acc.clone());
            }
        }
        let _ = unchanged_line;
        Completion::OneOf {
            allowed,
            or_unchanged: true,
        }
    };

    if trailing == 0 {
        // Z1
        return complete(false, line);
    }
    if cursor >= nchars {
        // Z2: trailing blanks and the cursor at the end: a (blank) argument position was reached
        return Completion::Unchanged;
    }
    if cursor <= word_end_chars {
        // Z3: cursor inside/at the end of the word, blanks to the right are dropped
        return complete(false, line);
    }
    // Z4: cursor inside the trailing blanks: either
    complete(true, line)
}

// ------------------------------------------------------------------------------------------------
// C13: framing of application output

/// LF -> CR LF (an LF that already follows a CR is kept as is: "compared modulo runs of CR before LF")
pub fn ref_frame(full: &str) -> (Vec<u8>, bool) {
    let mut out = Vec::new();
    for &b in full.as_bytes() {
        if b == b'\n' {
            out.push(b'\r');
        }
        out.push(b);
    }
    let needs_break = !full.is_empty() && !full.ends_with('\n');
    if needs_break {
        out.extend_from_slice(b"\r\n");
    }
    (out, needs_break)
}

/// Normalise a byte stream for framing comparison: collapse every run of CRs that precedes an LF
/// into a single CR.
pub fn collapse_cr(bytes: &[u8]) -> Vec<u8> {
    let mut out: Vec<u8> = Vec::with_capacity(bytes.len());
    let mut i = 0;
    while i < bytes.len() {
        if bytes[i] == b'\r' {
            let mut j = i;
            while j < bytes.len() && bytes[j] == b'\r' {
                j += 1;
            }
            if j < bytes.len() && bytes[j] == b'\n' {
                out.push(b'\r');
            } else {
                out.extend(std::iter::repeat(b'\r').take(j - i));
            }
            i = j;
        } else {
            out.push(bytes[i]);
            i += 1;
        }
    }
    out
}

#[cfg(test)]
mod tests {
    use super::*;

    #[test]
    fn tokens_basic() {
        assert_eq!(ref_tokens("  abc  def "), Some(vec!["abc".into(), "def".into()]));
        assert_eq!(ref_tokens(r#""" abc"#), Some(vec!["".into(), "abc".into()]));
        assert_eq!(ref_tokens(r#""a""b"c"#), Some(vec!["a".into(), "b".into(), "c".into()]));
        assert_eq!(ref_tokens(r#""a\"\\" x"#), Some(vec!["a\"\\".into(), "x".into()]));
        assert_eq!(ref_tokens(r#""a\x""#), None);
        assert_eq!(ref_tokens(r#"a\x "b"#), Some(vec!["a\\x".into(), "b".into()]));
        assert_eq!(ref_tokens(r#"ab"cd"#), Some(vec!["ab\"cd".into()]));
    }

    #[test]
    fn decoder_pairs() {
        let (ev, _) = RefDecoder::decode_all(b"\r\n\r\n");
        assert_eq!(ev.len(), 2);
        let (ev, _) = RefDecoder::decode_all(b"\n\r\n");
        assert_eq!(ev.len(), 2);
        let (ev, _) = RefDecoder::decode_all(b"\r\r\n\n");
        assert_eq!(ev.len(), 3);
        let (ev, _) = RefDecoder::decode_all(b"\x1b[1;5Cx\x1b\x1b[A");
        assert_eq!(
            ev.iter().map(|e| e.1).collect::<Vec<_>>(),
            vec![Key::Right, Key::Char('x'), Key::Up]
        );
    }

    #[test]
    fn completion() {
        let names: Vec<String> = ["get-led", "exit", "get-adc", "help"].iter().map(|s| s.to_string()).collect();
        assert_eq!(ref_complete(&names, "ge", 2, 40), Completion::Exactly("get-".into()));
        assert_eq!(ref_complete(&names, "e", 1, 40), Completion::Exactly("exit ".into()));
        assert_eq!(ref_complete(&names, "e", 1, 4), Completion::Exactly("exit".into()));
        assert_eq!(ref_complete(&names, "x", 1, 40), Completion::Unchanged);
        assert_eq!(ref_complete(&names, "e ", 2, 40), Completion::Unchanged);
        assert_eq!(ref_complete(&names, "e x", 3, 40), Completion::Unchanged);
    }
}
