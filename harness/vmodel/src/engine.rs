//! Shard context, proptest glue, panic capture, result files.

use std::{
    cell::RefCell,
    collections::{BTreeMap, HashSet},
    hash::{Hash, Hasher},
    panic::{catch_unwind, AssertUnwindSafe},
    path::Path,
};

use proptest::{
    strategy::Strategy,
    test_runner::{Config, RngSeed, TestCaseError, TestError, TestRunner},
};
use serde::{Deserialize, Serialize};
use serde_json::{json, Value};

#[derive(Clone, Copy, Debug, PartialEq, Eq, Serialize, Deserialize)]
pub enum Tier {
    Quick,
    Thorough,
}

impl Tier {
    pub fn name(&self) -> &'static str {
        match self {
            Tier::Quick => "quick",
            Tier::Thorough => "thorough",
        }
    }
    pub fn pick<T>(&self, quick: T, thorough: T) -> T {
        match self {
            Tier::Quick => quick,
            Tier::Thorough => thorough,
        }
    }
}

#[derive(Clone, Debug, Serialize, Deserialize)]
pub struct Failure {
    /// name of the sub-check (decides how the case is replayed)
    pub check: String,
    /// the (shrunk) case, self-contained
    pub case: Value,
    pub expected: String,
    pub observed: String,
}

impl Failure {
    pub fn new(check: &str, case: Value, expected: impl Into<String>, observed: impl Into<String>) -> Self {
        Failure {
            check: check.to_string(),
            case,
            expected: expected.into(),
            observed: observed.into(),
        }
    }
}

/// A check's verdict on one case
pub type Verdict = Result<(), Failure>;

#[derive(Debug, Serialize, Deserialize, Default)]
pub struct ShardResult {
    pub evaluations: u64,
    pub classes: BTreeMap<String, u64>,
    pub samples: Vec<Value>,
    pub skipped_unspecified: u64,
    pub exhaustive: BTreeMap<String, bool>,
    pub failure: Option<Failure>,
    pub inconclusive: Option<String>,
    pub notes: Vec<String>,
    pub nontrivial_count: u64,
    /// non-trivial cases that are distinct by construction (enumerations): counted, not hashed
    pub distinct_by_construction: u64,
}

pub struct ShardCtx {
    pub property: String,
    pub tier: Tier,
    pub seed: u64,
    pub shard: usize,
    pub nshards: usize,
    pub res: RefCell<ShardResult>,
    pub nontrivial: RefCell<HashSet<u64>>,
    /// once a failure is recorded, counting stops (proptest re-runs the closure while shrinking)
    pub stopped: RefCell<bool>,
    /// when set, every case is written here before it is executed (used after a worker died)
    pub trace_file: Option<String>,
    pub max_samples: usize,
}

pub fn fingerprint<T: Hash>(t: &T) -> u64 {
    let mut h = std::collections::hash_map::DefaultHasher::new();
    t.hash(&mut h);
    h.finish()
}

pub fn mix_seed(seed: u64, parts: &[&str], shard: usize) -> [u8; 32] {
    let mut out = [0u8; 32];
    for i in 0..4u64 {
        let mut h = std::collections::hash_map::DefaultHasher::new();
        seed.hash(&mut h);
        parts.hash(&mut h);
        shard.hash(&mut h);
        i.hash(&mut h);
        out[(i as usize) * 8..(i as usize + 1) * 8].copy_from_slice(&h.finish().to_le_bytes());
    }
    out
}

thread_local! {
    static LAST_PANIC: RefCell<Option<String>> = const { RefCell::new(None) };
}

pub fn install_panic_hook() {
    std::panic::set_hook(Box::new(|info| {
        let msg = if let Some(s) = info.payload().downcast_ref::<&str>() {
            s.to_string()
        } else if let Some(s) = info.payload().downcast_ref::<String>() {
            s.clone()
        } else {
            "<non-string panic payload>".to_string()
        };
        let loc = info
            .location()
            .map(|l| format!("{}:{}", l.file(), l.line()))
            .unwrap_or_default();
        let full = format!("panic: {} at {}", msg, loc);
        // keep a trace on stderr: a non-unwinding panic aborts the process right after the hook
        eprintln!("{}", full);
        LAST_PANIC.with(|p| *p.borrow_mut() = Some(full));
    }));
}

/// Run `f`, converting an unwinding panic into Err(message)
pub fn guarded<R>(f: impl FnOnce() -> R) -> Result<R, String> {
    match catch_unwind(AssertUnwindSafe(f)) {
        Ok(r) => Ok(r),
        Err(_) => Err(LAST_PANIC
            .with(|p| p.borrow_mut().take())
            .unwrap_or_else(|| "panic (no message)".into())),
    }
}

impl ShardCtx {
    pub fn new(property: &str, tier: Tier, seed: u64, shard: usize, nshards: usize) -> Self {
        ShardCtx {
            property: property.to_string(),
            tier,
            seed,
            shard,
            nshards,
            res: RefCell::new(ShardResult::default()),
            nontrivial: RefCell::new(HashSet::new()),
            stopped: RefCell::new(false),
            trace_file: None,
            max_samples: 6,
        }
    }

    pub fn active(&self) -> bool {
        !*self.stopped.borrow()
    }

    pub fn failed(&self) -> bool {
        self.res.borrow().failure.is_some()
    }

    pub fn count_eval(&self) {
        if self.active() {
            self.res.borrow_mut().evaluations += 1;
        }
    }

    pub fn count_evals(&self, n: u64) {
        if self.active() {
            self.res.borrow_mut().evaluations += n;
        }
    }

    pub fn class(&self, name: &str) {
        if self.active() {
            *self.res.borrow_mut().classes.entry(name.to_string()).or_insert(0) += 1;
        }
    }

    pub fn class_n(&self, name: &str, n: u64) {
        if self.active() && n > 0 {
            *self.res.borrow_mut().classes.entry(name.to_string()).or_insert(0) += n;
        }
    }

    pub fn skipped(&self) {
        if self.active() {
            self.res.borrow_mut().skipped_unspecified += 1;
        }
    }

    /// record a non-trivial case by fingerprint; `sample` is evaluated only if a slot is free
    pub fn nontrivial(&self, fp: u64, sample: impl FnOnce() -> Value) {
        if !self.active() {
            return;
        }
        let new = self.nontrivial.borrow_mut().insert(fp);
        if new {
            let mut r = self.res.borrow_mut();
            if r.samples.len() < self.max_samples {
                r.samples.push(sample());
            }
        }
    }

    /// record a non-trivial case of an enumeration (distinct by construction, no fingerprint kept)
    pub fn nontrivial_enum(&self, sample: impl FnOnce() -> Value) {
        if !self.active() {
            return;
        }
        let mut r = self.res.borrow_mut();
        r.distinct_by_construction += 1;
        if r.samples.len() < self.max_samples && r.distinct_by_construction % 977 == 1 {
            r.samples.push(sample());
        }
    }

    pub fn note(&self, s: impl Into<String>) {
        self.res.borrow_mut().notes.push(s.into());
    }

    pub fn exhaustive(&self, space: &str, v: bool) {
        self.res.borrow_mut().exhaustive.insert(space.to_string(), v);
    }

    pub fn inconclusive(&self, why: impl Into<String>) {
        let mut r = self.res.borrow_mut();
        if r.inconclusive.is_none() {
            r.inconclusive = Some(why.into());
        }
    }

    pub fn fail(&self, f: Failure) {
        let mut r = self.res.borrow_mut();
        if r.failure.is_none() {
            r.failure = Some(f);
        }
        *self.stopped.borrow_mut() = true;
    }

    pub fn trace(&self, case: &Value) {
        if let Some(p) = &self.trace_file {
            let _ = std::fs::write(p, serde_json::to_vec(case).unwrap());
        }
    }

    /// Split an index range among shards: returns this shard's share of 0..n
    pub fn my_range(&self, n: u64) -> std::ops::Range<u64> {
        let per = n.div_ceil(self.nshards as u64);
        let lo = (per * self.shard as u64).min(n);
        let hi = (lo + per).min(n);
        lo..hi
    }

    /// Does item `i` of an enumeration belong to this shard (round-robin)?
    pub fn mine(&self, i: u64) -> bool {
        (i % self.nshards as u64) as usize == self.shard
    }

    /// Drive a proptest strategy. `total_cases` is the whole tier's budget, divided among shards.
    /// `to_json` serialises a case for the replay file; `f` is the property.
    /// Panics inside `f` become failures. Stops at the first failure, shrinks it, records it.
    pub fn run_prop<T, S>(
        &self,
        sub: &str,
        total_cases: u64,
        strat: S,
        to_json: impl Fn(&T) -> Value,
        f: impl Fn(&T) -> Verdict,
    ) where
        T: core::fmt::Debug + Clone,
        S: Strategy<Value = T>,
    {
        if self.failed() {
            return;
        }
        let cases = total_cases.div_ceil(self.nshards as u64).max(1);
        let cfg = Config {
            cases: cases as u32,
            rng_seed: RngSeed::Fixed(u64::from_le_bytes(
                mix_seed(self.seed, &[&self.property, sub], self.shard)[..8].try_into().unwrap(),
            )),
            failure_persistence: None,
            max_shrink_iters: 3000,
            max_global_rejects: 1 << 20,
            max_local_rejects: 1 << 30,
            ..Config::default()
        };
        let mut runner = TestRunner::new(cfg);
        let result = runner.run(&strat, |v| {
            if self.trace_file.is_some() {
                self.trace(&json!({"check": sub, "case": to_json(&v)}));
            }
            self.count_eval();
            match guarded(|| f(&v)) {
                Ok(Ok(())) => Ok(()),
                Ok(Err(fl)) => {
                    *self.stopped.borrow_mut() = true;
                    Err(TestCaseError::fail(fl.observed))
                }
                Err(p) => {
                    *self.stopped.borrow_mut() = true;
                    Err(TestCaseError::fail(p))
                }
            }
        });
        match result {
            Ok(()) => {}
            Err(TestError::Fail(_, v)) => {
                // re-run on the shrunk value to get the details
                let fl = match guarded(|| f(&v)) {
                    Ok(Err(mut fl)) => {
                        fl.case = to_json(&v);
                        fl
                    }
                    Err(p) => Failure::new(sub, to_json(&v), "no panic", p),
                    Ok(Ok(())) => Failure::new(
                        sub,
                        to_json(&v),
                        "deterministic verdict",
                        "shrunk case passed when re-run (non-deterministic check?)",
                    ),
                };
                self.fail(fl);
            }
            Err(TestError::Abort(why)) => {
                self.inconclusive(format!("proptest aborted in {}: {}", sub, why));
            }
        }
    }

    pub fn write_result(&self, dir: &Path) {
        let mut r = self.res.borrow_mut();
        r.nontrivial_count = self.nontrivial.borrow().len() as u64;
        std::fs::write(
            dir.join(format!("shard-{}.json", self.shard)),
            serde_json::to_vec(&*r).unwrap(),
        )
        .unwrap();
        let mut bytes = Vec::with_capacity(self.nontrivial.borrow().len() * 8);
        for fp in self.nontrivial.borrow().iter() {
            bytes.extend_from_slice(&fp.to_le_bytes());
        }
        std::fs::write(dir.join(format!("shard-{}.fp", self.shard)), bytes).unwrap();
    }
}

/// Monotone index mapping for proptest-generated u16 selectors
pub fn pick<T: Clone>(table: &[T], sel: u16) -> T {
    let i = (sel as usize * table.len()) >> 16;
    table[i.min(table.len() - 1)].clone()
}
