//! Recording sink with short writes, an unflushed-byte counter and fault injection.

use std::{cell::RefCell, rc::Rc};

use serde::{Deserialize, Serialize};

#[derive(Clone, Copy, Debug, PartialEq, Eq)]
pub struct SinkErr(pub usize);

thread_local! {
    static KIND_SHIFT: std::cell::Cell<usize> = const { std::cell::Cell::new(0) };
}

/// Every kind `embedded_io` names (the enum is non-exhaustive; these are all of 0.6.1)
pub const KINDS: [embedded_io::ErrorKind; 18] = {
    use embedded_io::ErrorKind::*;
    [
        Other, Interrupted, TimedOut, BrokenPipe, WriteZero, Unsupported, OutOfMemory, InvalidInput, InvalidData, NotFound, PermissionDenied, ConnectionRefused, ConnectionReset, ConnectionAborted,
        NotConnected, AddrInUse, AddrNotAvailable, AlreadyExists,
    ]
};

/// Which kind the error of sink call k reports: `KINDS[(k + shift) % 18]` on this thread
pub fn set_kind_shift(shift: usize) {
    KIND_SHIFT.with(|c| c.set(shift));
}

impl embedded_io::Error for SinkErr {
    /// The kind varies with the failing call and with the fault's `kind` field, so that code which treats some kinds specially
    /// (retrying `Interrupted`, shrugging off `Unsupported`) is exercised: whatever its kind, a sink error is reported by the
    /// call during which it was raised.
    fn kind(&self) -> embedded_io::ErrorKind {
        KINDS[(self.0 + KIND_SHIFT.with(|c| c.get())) % KINDS.len()]
    }
}

#[derive(Clone, Debug, PartialEq, Eq)]
pub enum Ev {
    Write(Vec<u8>),
    Flush,
}

#[derive(Clone, Copy, Debug, PartialEq, Eq, Serialize, Deserialize)]
pub struct Fault {
    /// index of the sink call (write or flush, counted from 0 over the whole session) that fails
    pub call: usize,
    /// fail every call from `call` on (until `repair`), or just that one
    pub permanent: bool,
    /// after the failing call the sink is down again while this many further input bytes arrive (C14: an outage may end
    /// in the middle of a key's encoding)
    #[serde(default)]
    pub outage: u8,
    /// added to the call index to choose the `ErrorKind` the error reports (see `KINDS`)
    #[serde(default)]
    pub kind: u8,
}

#[derive(Debug, Default)]
pub struct SinkState {
    pub events: Vec<Ev>,
    pub bytes: Vec<u8>,
    pub unflushed: usize,
    pub calls: usize,
    pub write_calls: usize,
    pub short_writes: bool,
    /// keep the list of individual write/flush events (off by default: costs an allocation per write)
    pub record_events: bool,
    pub fault: Option<Fault>,
    pub raised: Vec<usize>,
}

impl SinkState {
    pub fn repair(&mut self) {
        self.fault = None;
    }

    fn should_fail(&self) -> bool {
        match self.fault {
            Some(f) if f.permanent => self.calls >= f.call,
            Some(f) => self.calls == f.call,
            None => false,
        }
    }
}

#[derive(Clone, Debug)]
pub struct RecSink(pub Rc<RefCell<SinkState>>);

impl RecSink {
    pub fn new(short_writes: bool, fault: Option<Fault>) -> (Self, Rc<RefCell<SinkState>>) {
        set_kind_shift(fault.map(|f| f.kind as usize).unwrap_or(0));
        let st = Rc::new(RefCell::new(SinkState {
            short_writes,
            fault,
            ..Default::default()
        }));
        (RecSink(st.clone()), st)
    }
}

impl embedded_io::ErrorType for RecSink {
    type Error = SinkErr;
}

impl embedded_io::Write for RecSink {
    fn write(&mut self, buf: &[u8]) -> Result<usize, SinkErr> {
        let mut s = self.0.borrow_mut();
        let idx = s.calls;
        let fail = s.should_fail();
        s.calls += 1;
        s.write_calls += 1;
        if fail {
            s.raised.push(idx);
            return Err(SinkErr(idx));
        }
        // never Ok(0) for a non-empty buffer: that would break the trait contract
        let n = if s.short_writes && buf.len() > 1 {
            1 + buf.len() / 2
        } else {
            buf.len()
        };
        let n = n.min(buf.len());
        if s.record_events {
            s.events.push(Ev::Write(buf[..n].to_vec()));
        }
        s.bytes.extend_from_slice(&buf[..n]);
        s.unflushed += n;
        Ok(n)
    }

    fn flush(&mut self) -> Result<(), SinkErr> {
        let mut s = self.0.borrow_mut();
        let idx = s.calls;
        let fail = s.should_fail();
        s.calls += 1;
        if fail {
            s.raised.push(idx);
            return Err(SinkErr(idx));
        }
        if s.record_events {
            s.events.push(Ev::Flush);
        }
        s.unflushed = 0;
        Ok(())
    }
}
