//! C03 on buffers that implement `Buffer::grow` (the trait's hook for growable storage; the pinned library never calls it,
//! a `//TODO: try to grow buffer` in `Editor::insert` says it may). The buffer here grows on request, but only up to a
//! cap that lies 0-3 bytes above its initial size, so a request may be granted in part. Oracle: no panic / abort / failed
//! precondition (the caller isolates the run), and after every call the editor's text is well-formed UTF-8 that fits the
//! storage. Nothing here depends on whether or when the library asks for more room.
use embedded_cli::{
    buffer::Buffer,
    cli::{CliBuilder, CliHandle},
    command::RawCommand,
    service::{CommandProcessor, FromRaw, ProcessError},
};

use crate::{
    fuzzrun::{self, FuzzOp},
    session::{script_text, Base, PROMPTS},
    sinkkinds::Uart,
};

pub struct GrowBuf {
    store: Vec<u8>,
    len: usize,
    pub grown: usize,
}

impl GrowBuf {
    pub fn new(len: usize, extra: usize) -> Self {
        GrowBuf { store: vec![0u8; len + extra], len, grown: 0 }
    }
}

impl Buffer for GrowBuf {
    fn as_slice(&self) -> &[u8] {
        &self.store[..self.len]
    }
    fn as_slice_mut(&mut self) -> &mut [u8] {
        let l = self.len;
        &mut self.store[..l]
    }
    fn grow(&mut self, new_size: usize) {
        if new_size > self.len {
            let to = new_size.min(self.store.len());
            self.grown += to - self.len;
            self.len = to;
        }
    }
}

struct Proc {
    typed: bool,
    calls: usize,
}

impl<W: embedded_io::Write<Error = core::convert::Infallible>> CommandProcessor<W, core::convert::Infallible> for Proc {
    fn process<'a>(&mut self, cli: &mut CliHandle<'_, W, core::convert::Infallible>, raw: RawCommand<'a>) -> Result<(), ProcessError<'a, core::convert::Infallible>> {
        self.calls += 1;
        let n = raw.args().args().count();
        if self.typed {
            <Base<'a> as FromRaw<'a>>::parse(raw).map_err(ProcessError::ParseError)?;
        }
        if n % 2 == 1 {
            cli.writer().write_str("ok")?;
        }
        Ok(())
    }
}

/// Ok(the session reached a full buffer or a dispatch) or what went wrong
pub fn run(data: &[u8]) -> Result<bool, String> {
    let (cfg, ops) = fuzzrun::decode(data);
    let cb = GrowBuf::new(cfg.cmd_buf, cfg.cmd_buf % 4);
    let hb = GrowBuf::new(cfg.hist_buf, (cfg.hist_buf / 4) % 4);
    let cap = cfg.cmd_buf + cfg.cmd_buf % 4;
    let Ok(mut cli) = CliBuilder::default().writer(Uart).command_buffer(cb).history_buffer(hb).build();
    let typed = cfg.set != "raw";
    let mut p = Proc { typed, calls: 0 };
    let mut full = false;
    for (i, op) in ops.iter().enumerate() {
        match op {
            FuzzOp::Byte(b) => {
                let Ok(()) = if typed { cli.process_byte::<Base<'_>, _>(*b, &mut p) } else { cli.process_byte::<RawCommand<'_>, _>(*b, &mut p) };
            }
            FuzzOp::Write(k) => {
                let t = script_text(&fuzzrun::write_script_c03(*k));
                let Ok(()) = cli.write(|w| w.write_str(&t));
            }
            FuzzOp::SetPrompt(k) => {
                let Ok(()) = cli.set_prompt(PROMPTS[*k % PROMPTS.len()]);
            }
        }
        let Some((text, cursor, _)) = cli.verif_editor() else { return Err(format!("op #{}: editor missing between calls", i)) };
        let Ok(t) = core::str::from_utf8(text) else {
            return Err(format!("op #{}: editor text is not well-formed UTF-8: {:02x?}", i, text));
        };
        if text.len() > cap {
            return Err(format!("op #{}: {} bytes of text in storage of {} bytes", i, text.len(), cap));
        }
        if cursor > t.chars().count() {
            return Err(format!("op #{}: cursor {} beyond {} characters", i, cursor, t.chars().count()));
        }
        full |= text.len() + 1 >= cfg.cmd_buf;
    }
    Ok(full || p.calls > 0)
}
