fn main(){}
