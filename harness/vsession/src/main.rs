//! Feature-matrix runner (C16): built once per subset of {history, autocomplete, help}.
//! One JSON request {cfg, ops} per stdin line, one trace per stdout line.
fn main() {
    vmodel::genrun::main_loop(|_d, req| vmodel::tracerun::serve(req));
}
