//! Session runner over the public API only (no verification hooks are touched). Built once without and once with the
//! `verif-hooks` feature of the library; the checks feed the same generated sessions to both and compare everything
//! observable: sink bytes after every op, the result of every call, what the handler received.
//!
//! stdin: one JSON session per line
//!   {"cmd":N,"hist":N,"prompt":K,"set":"raw"|"enum","new":bool,"ops":[<byte> | {"w":"text"} | {"p":K}]}
//! stdout: one JSON line per session: {"steps":[[sink-hex, "ok"|"err"], ...], "log":[...]} or {"panic":"..."}
#![allow(dead_code)]
use std::io::{BufRead, Write as _};

use embedded_cli::{
    cli::{Cli, CliBuilder, CliHandle},
    command::RawCommand,
    service::{CommandProcessor, FromRaw, ProcessError},
    Command,
};
use serde_json::{json, Value};

const PROMPTS: [&str; 5] = ["$ ", "", "#", "#> ₿𝄞 ", "дом> "];

#[derive(Default, Clone)]
struct Sink {
    bytes: std::rc::Rc<std::cell::RefCell<Vec<u8>>>,
}
impl embedded_io::ErrorType for Sink {
    type Error = core::convert::Infallible;
}
impl embedded_io::Write for Sink {
    fn write(&mut self, buf: &[u8]) -> Result<usize, Self::Error> {
        // tag each call so that a different split of the same bytes is seen too
        self.bytes.borrow_mut().extend_from_slice(buf);
        self.bytes.borrow_mut().push(0xFF);
        Ok(buf.len())
    }
    fn flush(&mut self) -> Result<(), Self::Error> {
        self.bytes.borrow_mut().push(0xFE);
        Ok(())
    }
}

struct Buf(Vec<u8>);
impl embedded_cli::buffer::Buffer for Buf {
    fn as_slice(&self) -> &[u8] {
        &self.0
    }
    fn as_slice_mut(&mut self) -> &mut [u8] {
        &mut self.0
    }
}

#[derive(Debug, Command)]
enum Base<'a> {
    /// Get current LED value
    GetLed {
        /// Print more
        #[arg(short, long)]
        verbose: bool,
        /// ID of requested LED
        id: u8,
    },
    /// Leave
    Exit,
    /// Get ADC value.
    ///
    /// Second paragraph of the description.
    GetAdc {
        #[arg(long, short = 'n', default_value = "1")]
        samples: u32,
        channel: Option<u8>,
    },
    #[command(name = "set")]
    Set {
        #[arg(short = 'k', long = "ключ")]
        key: Option<&'a str>,
        name: &'a str,
        value: &'a str,
    },
    /// Nested commands
    #[command(subcommand)]
    Net(NetCmd<'a>),
}

#[derive(Debug, Command)]
enum NetCmd<'a> {
    /// Bring interface up
    Up {
        #[arg(short, long)]
        force: bool,
        iface: &'a str,
    },
    Down,
}

struct Proc {
    typed: bool,
    log: Vec<Value>,
}
impl CommandProcessor<Sink, core::convert::Infallible> for Proc {
    fn process<'a>(&mut self, cli: &mut CliHandle<'_, Sink, core::convert::Infallible>, raw: RawCommand<'a>) -> Result<(), ProcessError<'a, core::convert::Infallible>> {
        let name = raw.name().to_string();
        let args: Vec<String> = raw.args().args().map(|a| format!("{:?}", a)).collect();
        let k = self.log.len();
        if self.typed {
            match <Base<'a> as FromRaw<'a>>::parse(raw) {
                Ok(c) => self.log.push(json!({"name": name, "args": args, "typed": format!("{:?}", c)})),
                Err(e) => {
                    self.log.push(json!({"name": name, "args": args, "error": format!("{:?}", e)}));
                    return Err(ProcessError::ParseError(e));
                }
            }
        } else {
            self.log.push(json!({"name": name, "args": args}));
        }
        // a few kinds of handler output, chosen by the call number and the name
        match k % 4 {
            0 => {}
            1 => cli.writer().write_str("got it")?,
            2 => {
                cli.writer().writeln_str(&name)?;
                cli.writer().write_str("второй\n")?;
            }
            _ => {
                cli.writer().write_title("Title:")?;
                cli.writer().write_list_element("имя", "description", 6)?;
            }
        }
        if name.starts_with('p') {
            cli.set_prompt(PROMPTS[(k + 1) % PROMPTS.len()]);
        }
        Ok(())
    }
}

fn run(req: &Value) -> Value {
    let cmd = req["cmd"].as_u64().unwrap_or(16) as usize;
    let hist = req["hist"].as_u64().unwrap_or(16) as usize;
    let prompt = PROMPTS[req["prompt"].as_u64().unwrap_or(0) as usize % PROMPTS.len()];
    let typed = req["set"].as_str() == Some("enum");
    let sink = Sink::default();
    #[allow(deprecated)]
    let cli = if req["new"].as_bool().unwrap_or(false) {
        Cli::new(sink.clone(), Buf(vec![0; cmd]), Buf(vec![0; hist]))
    } else {
        CliBuilder::default().writer(sink.clone()).command_buffer(Buf(vec![0; cmd])).history_buffer(Buf(vec![0; hist])).prompt(prompt).build()
    };
    let Ok(mut cli) = cli;
    let mut p = Proc { typed, log: Vec::new() };
    let mut steps: Vec<Value> = Vec::new();
    let hex = |b: &[u8]| b.iter().map(|x| format!("{:02x}", x)).collect::<String>();
    let mut seen = sink.bytes.borrow().len();
    let init = hex(&sink.bytes.borrow());
    let empty = Vec::new();
    for op in req["ops"].as_array().unwrap_or(&empty) {
        let r = if let Some(b) = op.as_u64() {
            if typed {
                cli.process_byte::<Base<'_>, _>(b as u8, &mut p)
            } else {
                cli.process_byte::<RawCommand<'_>, _>(b as u8, &mut p)
            }
        } else if let Some(t) = op["w"].as_str() {
            cli.write(|w| w.write_str(t))
        } else if let Some(k) = op["p"].as_u64() {
            cli.set_prompt(PROMPTS[k as usize % PROMPTS.len()])
        } else {
            Ok(())
        };
        let Ok(()) = r;
        let now = sink.bytes.borrow().len();
        steps.push(json!([hex(&sink.bytes.borrow()[seen..now]), p.log.len()]));
        seen = now;
    }
    json!({"init": init, "steps": steps, "log": p.log})
}

fn main() {
    std::panic::set_hook(Box::new(|_| {}));
    let stdin = std::io::stdin();
    let stdout = std::io::stdout();
    for line in stdin.lock().lines() {
        let Ok(line) = line else { break };
        if line.trim().is_empty() {
            continue;
        }
        let req: Value = match serde_json::from_str(&line) {
            Ok(v) => v,
            Err(e) => {
                println!("{}", json!({"bad_request": e.to_string()}));
                continue;
            }
        };
        let res = std::panic::catch_unwind(std::panic::AssertUnwindSafe(|| run(&req)));
        let out = match res {
            Ok(v) => v,
            Err(p) => {
                let msg = p.downcast_ref::<String>().cloned().or_else(|| p.downcast_ref::<&str>().map(|s| s.to_string())).unwrap_or_else(|| "panic".into());
                json!({"panic": msg})
            }
        };
        let mut o = stdout.lock();
        let _ = writeln!(o, "{}", out);
        let _ = o.flush();
    }
}
