// host crate for the cargo-fuzz project in ./fuzz
