#![no_main]
//! libFuzzer target for the function-level differentials of C04 (byte decoder), C07 (tokeniser) and C08 (argument
//! classifier): the reference model is inside the target; VFUZZ_MODE selects which one (read once).
use libfuzzer_sys::fuzz_target;
use std::sync::OnceLock;

static MODE: OnceLock<String> = OnceLock::new();

fuzz_target!(|data: &[u8]| {
    let mode = MODE.get_or_init(|| std::env::var("VFUZZ_MODE").unwrap_or_else(|_| "decoder".into()));
    if let Err((expected, observed)) = vmodel::fdiff::run(mode, data) {
        panic!("differential oracle violated ({}): expected {} — observed {}", mode, expected, observed);
    }
});
