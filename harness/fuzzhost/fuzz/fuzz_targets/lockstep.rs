#![no_main]
//! libFuzzer target shared by C01, C05, C06, C13 and C15: a lock-step session decoded from the
//! input (vmodel::fuzzlock), with the property's semantic oracle inside the target. Which oracles
//! are on comes from VFUZZ_FLAGS (read once); all state is per iteration.
use libfuzzer_sys::fuzz_target;
use std::sync::OnceLock;

static FLAGS: OnceLock<vmodel::lockstep::Flags> = OnceLock::new();

fuzz_target!(|data: &[u8]| {
    let flags = *FLAGS.get_or_init(|| vmodel::fuzzlock::parse_flags(&std::env::var("VFUZZ_FLAGS").unwrap_or_else(|_| "all".into())));
    if let Err((expected, observed)) = vmodel::fuzzlock::run(data, flags) {
        panic!("lock-step oracle violated: expected {} — observed {}", expected, observed);
    }
});
