#![no_main]
//! libFuzzer target for C03: a whole Cli session decoded from the input, with the semantic oracle
//! (invariants behind every unchecked operation) inside the target. All state is per iteration.
use libfuzzer_sys::fuzz_target;

fuzz_target!(|data: &[u8]| {
    if let Err(e) = vmodel::fuzzrun::run(data) {
        panic!("C03 invariant violated: {}", e);
    }
});
