//! C03, stack depth: the library is built WITHOUT optimisation here (no tail-call elimination, no inlining) and driven on
//! a small stack with inputs of growing size. Stack use must not grow with the size of a text, a line or a history:
//! a library function that recurses once per line feed, token, argument or entry overflows the stack and aborts.
//!   stackprobe <scenario> <n>   exit 0 = survived; death by signal = stack overflow (reported by the caller)
use embedded_cli::{
    cli::{CliBuilder, CliHandle},
    command::RawCommand,
    service::{CommandProcessor, ProcessError},
};

struct Sink(usize);
impl embedded_io::ErrorType for Sink {
    type Error = core::convert::Infallible;
}
impl embedded_io::Write for Sink {
    fn write(&mut self, buf: &[u8]) -> Result<usize, Self::Error> {
        self.0 += buf.len();
        Ok(buf.len())
    }
    fn flush(&mut self) -> Result<(), Self::Error> {
        Ok(())
    }
}

struct Buf(Vec<u8>);
impl embedded_cli::buffer::Buffer for Buf {
    fn as_slice(&self) -> &[u8] {
        &self.0
    }
    fn as_slice_mut(&mut self) -> &mut [u8] {
        &mut self.0
    }
}

struct Proc {
    text: String,
    args_seen: usize,
}
impl CommandProcessor<Sink, core::convert::Infallible> for Proc {
    fn process<'a>(&mut self, cli: &mut CliHandle<'_, Sink, core::convert::Infallible>, raw: RawCommand<'a>) -> Result<(), ProcessError<'a, core::convert::Infallible>> {
        self.args_seen += raw.args().args().count();
        cli.writer().write_str(&self.text)?;
        cli.writer().writeln_str(&self.text)?;
        Ok(())
    }
}

fn run(scenario: &str, n: usize) {
    let mut cli = CliBuilder::default()
        .writer(Sink(0))
        .command_buffer(Buf(vec![0u8; 3 * n + 64]))
        .history_buffer(Buf(vec![0u8; 8 * n + 64]))
        .build()
        .unwrap();
    let mut p = Proc { text: String::new(), args_seen: 0 };
    let feed = |cli: &mut embedded_cli::cli::Cli<Sink, core::convert::Infallible, Buf, Buf>, p: &mut Proc, s: &str| {
        for b in s.bytes() {
            cli.process_byte::<RawCommand<'_>, _>(b, p).unwrap();
        }
    };
    match scenario {
        "write-linefeeds" => {
            let t = "\n".repeat(n);
            cli.write(|w| w.write_str(&t)).unwrap();
            let t2 = "ab\n".repeat(n);
            cli.write(|w| w.writeln_str(&t2)).unwrap();
        }
        "handler-linefeeds" => {
            p.text = "x\n".repeat(n);
            feed(&mut cli, &mut p, "go\r");
        }
        "many-tokens" => {
            let line = "a ".repeat(n);
            feed(&mut cli, &mut p, &line);
            feed(&mut cli, &mut p, "\r");
            assert!(p.args_seen + 1 >= n, "{} arguments seen", p.args_seen);
        }
        "long-cluster" => {
            let line = format!("x -{}", "v".repeat(n));
            feed(&mut cli, &mut p, &line);
            feed(&mut cli, &mut p, "\r");
        }
        "history-walk" => {
            for i in 0..n {
                feed(&mut cli, &mut p, &format!("l{}\r", i));
            }
            for _ in 0..n + 2 {
                feed(&mut cli, &mut p, "\x1b[A");
            }
            for _ in 0..n + 2 {
                feed(&mut cli, &mut p, "\x1b[B");
            }
        }
        "long-line-edit" => {
            feed(&mut cli, &mut p, &"é".repeat(n));
            for _ in 0..n {
                feed(&mut cli, &mut p, "\x1b[D");
            }
            feed(&mut cli, &mut p, "x\x08\t");
            cli.set_prompt("# ").unwrap();
            feed(&mut cli, &mut p, "\r");
        }
        other => panic!("unknown scenario {}", other),
    }
}

fn main() {
    let a: Vec<String> = std::env::args().collect();
    let scenario = a[1].clone();
    let n: usize = a[2].parse().unwrap();
    // a stack the size of a small microcontroller's, far below what a frame per element would need at the larger n
    let t = std::thread::Builder::new().stack_size(96 * 1024).spawn(move || run(&scenario, n)).unwrap();
    t.join().unwrap();
    println!("STACKPROBE-OK");
}
