//! C01 — Enter dispatches exactly the visible line, exactly once.

use std::path::Path;

use serde_json::Value;
use vmodel::engine::{ShardCtx, Tier, Verdict};

use super::{
    fuzzdrv,
    lockstep::{replay_lockstep, run_lockstep_shard, Flags, GenOpts},
    Check, PrepError, DEFAULT,
};

// C01 speaks of "the visible line ... after every insertion, deletion, cursor move, recall and completion":
// besides the dispatch itself, the line Enter acts on must be what the keys produce (ideal-editor model)
// and what the terminal shows (emulator), so both comparisons are on as well.
const FLAGS: Flags = Flags {
    dispatch: true,
    editor: true,
    screen: true,
    framing: false,
    flush: false,
    help_on: true,
    complete: false,
};

pub fn check() -> Check {
    Check {
        id: "C01",
        run_shard,
        prepare: Some(prepare),
        replay: |sub, case| -> Verdict { replay_lockstep(sub, case, FLAGS) },
        floor_quick: 2_000,
        floor_thorough: 50_000,
        rule: "Random sessions (proptest, vec of ops, shrunk as one value) over characters of 1-4 bytes, quotes, backslashes, dashes, Backspace, Left/Right, Up/Down, Tab, all Enter encodings, known command fragments, \
               Cli::write and set_prompt, for command/history buffer sizes from {0,1,2,3,4,6,8,12,16,32,64} squared (biased small) and three command sets (RawCommand, a derived enum, a derived group with a hidden member). \
               Oracle: after every non-Enter byte the handler-invocation count is unchanged; at Enter the handler is invoked exactly once with the reference tokens/classification of the line, or not at all for blank lines and help requests; \
               the line Enter acts on (hook) must at every step equal both the ideal-editor model of the keys typed and what the terminal emulator shows after the prompt (the visible line); \
               afterwards the line is empty and the terminal emulator shows one fresh prompt on a new last row. \
               Two differential stages on the same session strategies: `hook-free` (a runner over the public API built without verif-hooks, with them, and without debug assertions / overflow checks: identical sink calls, results and handler log) and `api-shapes` (zero-sized / 512-byte / `&mut` sinks, `[u8; N]` / `&mut [u8]` buffers, other builder call orders, Cli::new: identical dispatches). \
               Non-trivial = an Enter on a line with at least one token that was built using a cursor move, backspace, recall, completion or a rejected character; distinct by (line bytes, buffer sizes). Evaluations count every API call (input byte, application write, prompt change) that was followed by the oracle, plus one per session; a coverage-guided campaign (libFuzzer + ASan, 16 processes, same oracle inside the target) searches the same session space and what it keeps is re-run and classified here.",
        assumptions: &[
            "recall and completion replace the model line by the observed one (their content is C10's / C11's business); keys use canonical encodings (terminator and CSI corner cases belong to C04)",
            "lines touching quoting escapes left open by C07 are checked for the invocation count only; `help` followed by an option is left open (skipped_unspecified)",
        ],
        ..DEFAULT
    }
}

const SETS: &[&str] = &["raw", "raw", "enum", "group"];

fn opts(tier: Tier) -> GenOpts {
    GenOpts {
        writes: 2,
        set_prompts: 2,
        scripts: true,
        max_ops: tier.pick(40, 120),
        quotes: true,
    }
}

fn prepare(tier: Tier, seed: u64, _dir: &Path) -> Result<Value, PrepError> {
    super::hookfree::build().map_err(PrepError::Inconclusive)?;
    fuzzdrv::prepare_lockstep("C01", "dispatch", "dispatch,editor,screen", opts(tier), SETS, tier, seed)
}

fn run_shard(ctx: &ShardCtx) {
    run_lockstep_shard(ctx, "dispatch", "C01", ctx.tier.pick(1_500_000, 15_000_000), opts(ctx.tier), SETS, FLAGS);
    // what the coverage-guided campaign (prepare) kept, re-run and classified in the plain harness build
    fuzzdrv::replay_lock_corpus(ctx, "C01", "dispatch", FLAGS);
    // the same sessions on the library as users build it (no verif-hooks), against the hooked build
    super::hookfree::stage(ctx, ctx.tier.pick(60_000, 1_000_000), opts(ctx.tier), SETS);
    // other shapes of the API (sink types, `[u8; N]` / `&mut [u8]` buffers, builder call orders, Cli::new): same dispatches
    super::shapes::stage(ctx, ctx.tier.pick(100_000, 1_500_000), opts(ctx.tier), SETS, vmodel::sinkkinds::Diff::Dispatch);
}
