//! Registry of the per-property checks.

use std::path::Path;

use serde_json::Value;
use vmodel::engine::{Failure, ShardCtx, Tier, Verdict};

pub mod common;
pub mod declcommon;
pub mod fuzzdrv;
pub mod hookfree;
pub mod shapes;
pub mod c01;
pub mod c02;
pub mod c03;
pub mod c04;
pub mod c05;
pub mod c06;
pub mod c07;
pub mod c08;
pub mod c09;
pub mod c10;
pub mod c11;
pub mod c12;
pub mod c13;
pub mod c14;
pub mod c15;
pub mod c16;
pub mod c17;
pub use vmodel::lockstep;

pub enum PrepError {
    Violation(Failure),
    Inconclusive(String),
}

pub struct Check {
    pub id: &'static str,
    pub run_shard: fn(&ShardCtx),
    pub replay: fn(&str, &Value) -> Verdict,
    pub prepare: Option<fn(Tier, u64, &Path) -> Result<Value, PrepError>>,
    pub prepare_replay: Option<fn(&Value) -> Result<(), String>>,
    pub single_shard: bool,
    pub quick_limit_s: u64,
    pub thorough_limit_s: u64,
    pub floor_quick: u64,
    pub floor_thorough: u64,
    pub rule: &'static str,
    pub level: &'static str,
    pub assumptions: &'static [&'static str],
    /// the whole check is an exhaustive enumeration (evidence may then say exhaustive: true)
    pub exhaustive_only: bool,
}

pub const DEFAULT: Check = Check {
    id: "",
    run_shard: |_| {},
    replay: |_, _| Ok(()),
    prepare: None,
    prepare_replay: None,
    single_shard: false,
    quick_limit_s: 900,
    thorough_limit_s: 7200,
    floor_quick: 2,
    floor_thorough: 2,
    rule: "",
    level: "exploration",
    assumptions: &[],
    exhaustive_only: false,
};

pub fn all() -> Vec<Check> {
    vec![c01::check(), c02::check(), c03::check(), c05::check(), c06::check(), c13::check(), c14::check(), c15::check(), c16::check(), c04::check(), c07::check(), c08::check(), c09::check(), c10::check(), c11::check(), c12::check(), c17::check()]
}

pub fn find(id: &str) -> Option<Check> {
    all().into_iter().find(|c| c.id == id)
}
