//! Helpers shared by the checks.

use embedded_cli::__verif::{ControlInput, Input};
use serde_json::{json, Value};
use vmodel::refs::Key;

pub fn hex(b: &[u8]) -> String {
    b.iter().map(|x| format!("{:02x}", x)).collect()
}

pub fn unhex(s: &str) -> Vec<u8> {
    (0..s.len() / 2)
        .map(|i| u8::from_str_radix(&s[2 * i..2 * i + 2], 16).unwrap_or(0))
        .collect()
}

pub fn bytes_json(b: &[u8]) -> Value {
    json!({"bytes": hex(b), "lossy": String::from_utf8_lossy(b)})
}

pub fn case_bytes(v: &Value) -> Vec<u8> {
    unhex(v["bytes"].as_str().unwrap_or(""))
}

/// What the real decoder emitted, in the vocabulary of the reference.
/// Err = the payload of a Char event is not exactly one well-formed scalar.
pub fn key_of(input: &Input<'_>) -> Result<Key, String> {
    Ok(match input {
        Input::Control(c) => match c {
            ControlInput::Backspace => Key::Backspace,
            ControlInput::Down => Key::Down,
            ControlInput::Enter => Key::Enter,
            ControlInput::Back => Key::Left,
            ControlInput::Forward => Key::Right,
            ControlInput::Tab => Key::Tab,
            ControlInput::Up => Key::Up,
        },
        Input::Char(s) => {
            let b = s.as_bytes();
            match core::str::from_utf8(b) {
                Ok(t) => {
                    let mut it = t.chars();
                    match (it.next(), it.next()) {
                        (Some(c), None) => Key::Char(c),
                        _ => return Err(format!("Char payload {:?} is not exactly one scalar", t)),
                    }
                }
                Err(_) => return Err(format!("Char payload {} is not well-formed UTF-8", hex(b))),
            }
        }
    })
}

pub use vmodel::engine::pick;

/// Run a fresh real decoder over the bytes
pub fn real_decode(bytes: &[u8]) -> Result<Vec<(usize, Key)>, String> {
    let mut g = embedded_cli::__verif::InputGenerator::new();
    let mut got = Vec::new();
    for (i, &b) in bytes.iter().enumerate() {
        if let Some(inp) = g.accept(b) {
            got.push((i, key_of(&inp).map_err(|e| format!("at byte {}: {}", i, e))?));
        }
    }
    Ok(got)
}

/// Tokenise a line with the real tokenizer (on a private copy).
/// Returns the tokens as raw bytes, and `is_empty()`.
pub fn real_tokens(line: &str) -> (Vec<Vec<u8>>, bool) {
    let mut buf = line.as_bytes().to_vec();
    let s = core::str::from_utf8_mut(&mut buf).expect("caller passes a str");
    let t = embedded_cli::__verif::Tokens::new(s);
    let empty = t.is_empty();
    let mut it = t.iter();
    let mut out = Vec::new();
    for tok in &mut it {
        out.push(tok.as_bytes().to_vec());
    }
    (out, empty)
}

pub fn lossy_list(v: &[Vec<u8>]) -> Vec<String> {
    v.iter().map(|b| String::from_utf8_lossy(b).to_string()).collect()
}
