//! C10 — history recalls submitted lines newest-first, deduplicated, oldest evicted first.

use std::collections::{HashSet, VecDeque};

use embedded_cli::__verif::History;
use proptest::prelude::*;
use serde_json::{json, Value};
use vmodel::{
    engine::{fingerprint, Failure, ShardCtx, Verdict},
    refs::RefHistory,
    session::{Config, HistoryView, Op, OwnedBuf, RawSet, Sess},
};

use super::{common::pick, Check, DEFAULT};

pub fn check() -> Check {
    Check {
        id: "C10",
        run_shard,
        replay,
        floor_quick: 20_000,
        floor_thorough: 500_000,
        rule: "G1: breadth-first closure of a list model of the history for buffers of 0..=14 (quick) / 0..=17 (thorough) bytes over the lines {a, b, e-acute, ab, 'a b', bitcoin sign, abc, empty, a 12-byte line, 'a ' (trailing blank)}; every (state, op) edge - push of each line, older, newer - is replayed on a fresh real History: \
               return value, raw buffer content (hook) and navigation position compared. G2: random op sequences for buffers of 0..=40 bytes with lines of 0..=45 bytes (beyond the buffer) and frequent duplicates. \
               G3: Cli sessions (submit / Up / Down / edit then submit, command buffer larger and smaller than the history buffer), each ending with an Up-walk to the oldest entry and a Down-walk back; the recalled line, the raw buffer and the position are compared after every key. \
               G4: large buffers (250..262, 500..3000, 65530..65542, 70000, 131080 bytes) filled beyond capacity, walked to the oldest entry and back, with re-submissions near both ends. \
               Non-trivial = the sequence contains an eviction or a mid-list duplicate followed by navigation (every G4 case counts); distinct by op sequence.",
        assumptions: &[
            "the navigation position after an Enter that records nothing (empty or oversize line) may stay or reset; Down while not navigating may leave the line or empty it: both are accepted, the model adopts what is observed",
            "editing a recalled line does not move the navigation position",
        ],
        ..DEFAULT
    }
}

#[derive(Clone, Debug, PartialEq, Eq, Hash)]
enum HOp {
    Push(String),
    Older,
    Newer,
}

fn hop_json(op: &HOp) -> Value {
    match op {
        HOp::Push(s) => json!({"push": s}),
        HOp::Older => json!("older"),
        HOp::Newer => json!("newer"),
    }
}

fn hop_from(v: &Value) -> HOp {
    match v {
        Value::String(s) if s == "older" => HOp::Older,
        Value::String(_) => HOp::Newer,
        v => HOp::Push(v["push"].as_str().unwrap_or("").to_string()),
    }
}

fn view<B: embedded_cli::buffer::Buffer>(h: &History<B>) -> HistoryView {
    let (b, u, c) = h.verif_raw();
    HistoryView {
        buf: b.to_vec(),
        used: u,
        cursor: c,
    }
}

/// compare the raw state of the real history with the model. `pos_choices`: allowed positions
fn compare_state(h: &HistoryView, m: &RefHistory, pos_choices: &[Option<usize>]) -> Result<Option<usize>, (String, String)> {
    let entries = h
        .entries()
        .ok_or_else(|| ("raw buffer is a sequence of NUL-terminated entries within `used`".to_string(), format!("{:?}", h)))?;
    let got: Vec<String> = entries.iter().map(|e| String::from_utf8_lossy(e).to_string()).collect();
    for e in &entries {
        if core::str::from_utf8(e).is_err() {
            return Err(("entries are well-formed UTF-8".into(), format!("{:02x?}", e)));
        }
    }
    if got != m.entries {
        return Err((format!("entries oldest first {:?}", m.entries), format!("{:?}", got)));
    }
    let pos = h
        .position()
        .ok_or_else(|| ("navigation cursor points at the start of an entry".to_string(), format!("cursor {:?} in {:?}", h.cursor, got)))?;
    if !pos_choices.contains(&pos) {
        return Err((format!("navigation position (index from oldest) in {:?}", pos_choices), format!("{:?}", pos)));
    }
    Ok(pos)
}

/// Apply one op to both; returns Err on disagreement
fn step<B: embedded_cli::buffer::Buffer>(h: &mut History<B>, m: &mut RefHistory, op: &HOp) -> Result<(), (String, String)> {
    match op {
        HOp::Push(line) => {
            let before = m.pos;
            let recorded = m.push(line);
            h.push(line);
            let choices = if recorded { vec![None] } else { vec![before, None] };
            let pos = compare_state(&view(h), m, &choices).map_err(|(e, o)| (format!("after push({:?}): {}", line, e), o))?;
            m.pos = pos;
        }
        HOp::Older => {
            let want = m.older();
            let got = h.next_older().map(|s| s.to_string());
            if got != want {
                return Err((format!("older() returns {:?}", want), format!("{:?}", got)));
            }
            compare_state(&view(h), m, &[m.pos]).map_err(|(e, o)| (format!("after older(): {}", e), o))?;
        }
        HOp::Newer => {
            let want = m.newer();
            let got = h.next_newer().map(|s| s.to_string());
            if got != want {
                return Err((format!("newer() returns {:?}", want), format!("{:?}", got)));
            }
            compare_state(&view(h), m, &[m.pos]).map_err(|(e, o)| (format!("after newer(): {}", e), o))?;
        }
    }
    Ok(())
}

fn run_seq(cap: usize, ops: &[HOp]) -> Result<bool, (String, String)> {
    let mut h = History::new(OwnedBuf(vec![0u8; cap]));
    let mut m = RefHistory::new(cap);
    let mut interesting = false;
    let mut nontrivial = false;
    for (i, op) in ops.iter().enumerate() {
        if let HOp::Push(l) = op {
            if m.records(l) {
                let dup_mid = m.entries.iter().position(|e| e == l).map(|p| p + 1 < m.entries.len()).unwrap_or(false);
                let evicts = !m.entries.contains(l) && m.used() + l.len() + 1 > m.cap && !m.entries.is_empty();
                if dup_mid || evicts {
                    interesting = true;
                }
            }
        } else if interesting {
            nontrivial = true;
        }
        step(&mut h, &mut m, op).map_err(|(e, o)| (format!("op #{} {:?}: {}", i, op, e), o))?;
    }
    Ok(nontrivial)
}

/// Large buffers, around the sizes where an 8- or 16-bit offset would wrap: fill well beyond the capacity (evictions), walk
/// to the oldest entry and back, re-submit a middle entry, walk again. Strings are compared at every step, the raw state at
/// the milestones. `len_base`/`len_var`: line lengths; lines are distinct by their index.
fn run_big(cap: usize, len_base: usize, len_var: usize, salt: u32) -> Result<(), (String, String)> {
    let mut h = History::new(OwnedBuf(vec![0u8; cap]));
    let mut m = RefHistory::new(cap);
    let line = |i: usize| -> String {
        let n = len_base + (i.wrapping_mul(7 + salt as usize) % (len_var + 1));
        let mut s = format!("l{}-", i);
        let fill = ["é", "x", "₿", "-", "y"];
        let mut k = 0;
        while s.len() < n {
            s.push_str(fill[(i + k) % fill.len()]);
            k += 1;
        }
        s
    };
    let total = (cap + cap / 3) / (len_base + len_var / 2 + 1) + 3;
    for i in 0..total {
        let l = line(i);
        m.push(&l);
        h.push(&l);
    }
    compare_state(&view(&h), &m, &[None]).map_err(|(e, o)| (format!("after {} submissions into a {}-byte buffer: {}", total, cap, e), o))?;
    let n = m.entries.len();
    for k in 0..n + 2 {
        let (want, got) = (m.older(), h.next_older().map(|s| s.to_string()));
        if got != want {
            return Err((format!("{}-byte buffer, {} entries, Up #{} shows {:?}", cap, n, k + 1, want), format!("{:?}", got)));
        }
    }
    compare_state(&view(&h), &m, &[m.pos]).map_err(|(e, o)| (format!("after walking to the oldest entry of a {}-byte buffer: {}", cap, e), o))?;
    for k in 0..n + 2 {
        let (want, got) = (m.newer(), h.next_newer().map(|s| s.to_string()));
        if got != want {
            return Err((format!("{}-byte buffer, {} entries, Down #{} shows {:?}", cap, n, k + 1, want), format!("{:?}", got)));
        }
    }
    if n >= 3 {
        // re-submit entries near the end, in the middle and near the start of the buffer
        for idx in [n - 2, n / 2, 1] {
            let l = m.entries[idx.min(m.entries.len() - 1)].clone();
            m.push(&l);
            h.push(&l);
            compare_state(&view(&h), &m, &[None]).map_err(|(e, o)| (format!("after re-submitting {:?} into a {}-byte buffer: {}", l, cap, e), o))?;
            for k in 0..3 {
                let (want, got) = (m.older(), h.next_older().map(|s| s.to_string()));
                if got != want {
                    return Err((format!("{}-byte buffer after re-submitting {:?}: Up #{} shows {:?}", cap, l, k + 1, want), format!("{:?}", got)));
                }
            }
            m.push(&line(total + idx));
            h.push(&line(total + idx));
        }
    }
    Ok(())
}

fn big_json(cap: usize, len_base: usize, len_var: usize, salt: u32) -> Value {
    json!({"hist_buf": cap, "len_base": len_base, "len_var": len_var, "salt": salt})
}

fn seq_json(cap: usize, ops: &[HOp]) -> Value {
    json!({"hist_buf": cap, "ops": ops.iter().map(hop_json).collect::<Vec<_>>()})
}

// ---- G1 closure

fn closure_lines() -> Vec<String> {
    ["a", "b", "é", "ab", "a b", "₿", "abc", "", "twelve bytes", "a "].iter().map(|s| s.to_string()).collect()
}

fn check_edge(cap: usize, st: &RefHistory, op: &HOp) -> Result<(), (String, String)> {
    let mut h = History::new(OwnedBuf(vec![0u8; cap]));
    for e in &st.entries {
        h.push(e);
    }
    if let Some(p) = st.pos {
        for _ in p..st.entries.len() {
            h.next_older();
        }
    }
    let mut m = st.clone();
    compare_state(&view(&h), &m, &[st.pos]).map_err(|(e, o)| (format!("building the state: {}", e), o))?;
    step(&mut h, &mut m, op)
}

fn edge_json(cap: usize, st: &RefHistory, op: &HOp) -> Value {
    json!({"hist_buf": cap, "entries": st.entries, "pos": st.pos, "op": hop_json(op)})
}

// ---- G3 Cli sessions

#[derive(Clone, Debug)]
struct CliCase {
    cfg: Config,
    ops: Vec<Op>,
}

fn cli_case_json(c: &CliCase) -> Value {
    json!({"cfg": c.cfg, "ops": c.ops})
}

fn run_cli(c: &CliCase) -> Result<bool, (String, String)> {
    match c.cfg.set.as_str() {
        "group" => run_cli_set::<vmodel::session::GroupSet>(c),
        _ => run_cli_set::<RawSet>(c),
    }
}

fn run_cli_set<S: vmodel::session::CmdSet>(c: &CliCase) -> Result<bool, (String, String)> {
    let (s, _) = Sess::<S>::new(&c.cfg, None);
    let mut s = s.map_err(|e| ("construction succeeds".to_string(), format!("{:?}", e)))?;
    let mut m = RefHistory::new(c.cfg.hist_buf);
    let mut interesting = false;
    let mut nontrivial = false;
    // every session ends by reading the history the way a user does
    let mut ops = c.ops.clone();
    let walk = 8usize;
    ops.extend(std::iter::repeat(Op::Up).take(walk));
    ops.extend(std::iter::repeat(Op::Down).take(walk + 1));
    for (oi, op) in ops.iter().enumerate() {
        let bytes = op.encode(&c.cfg, s.last_byte);
        let pre = s.editor();
        let pre_line = String::from_utf8_lossy(&pre.bytes).to_string();
        for b in bytes {
            s.byte(b).map_err(|e| (format!("op #{} {:?}: Ok", oi, op), format!("{:?}", e)))?;
        }
        let post = s.editor();
        let post_line = String::from_utf8_lossy(&post.bytes).to_string();
        let what = format!("op #{} {:?} on line {:?}", oi, op, pre_line);
        match op {
            Op::Enter => {
                let before = m.pos;
                if m.records(&pre_line) {
                    let dup_mid = m.entries.iter().position(|e| *e == pre_line).map(|p| p + 1 < m.entries.len()).unwrap_or(false);
                    let evicts = !m.entries.contains(&pre_line) && m.used() + pre_line.len() + 1 > m.cap && !m.entries.is_empty();
                    if dup_mid || evicts {
                        interesting = true;
                    }
                }
                let recorded = m.push(&pre_line);
                let choices = if recorded { vec![None] } else { vec![before, None] };
                m.pos = compare_state(&s.history(), &m, &choices).map_err(|(e, o)| (format!("{}: {}", what, e), o))?;
            }
            Op::Up => {
                if interesting {
                    nontrivial = true;
                }
                match m.older() {
                    Some(line) => {
                        if post_line != line {
                            return Err((format!("{}: the line becomes {:?}", what, line), format!("{:?}", post_line)));
                        }
                    }
                    None => {
                        if post != pre {
                            return Err((format!("{}: nothing changes (no older entry)", what), format!("line {:?} cursor {}", post_line, post.cursor)));
                        }
                    }
                }
                compare_state(&s.history(), &m, &[m.pos]).map_err(|(e, o)| (format!("{}: {}", what, e), o))?;
            }
            Op::Down => {
                if interesting {
                    nontrivial = true;
                }
                let was_nav = m.pos.is_some();
                match m.newer() {
                    Some(line) => {
                        if post_line != line {
                            return Err((format!("{}: the line becomes {:?}", what, line), format!("{:?}", post_line)));
                        }
                    }
                    None if was_nav => {
                        if !post_line.is_empty() {
                            return Err((format!("{}: moving past the newest entry leaves an empty line", what), format!("{:?}", post_line)));
                        }
                    }
                    None => {
                        // not navigating: left open (unchanged or emptied)
                        if !(post_line.is_empty() || post == pre) {
                            return Err((format!("{}: line unchanged or emptied", what), format!("{:?}", post_line)));
                        }
                    }
                }
                compare_state(&s.history(), &m, &[m.pos]).map_err(|(e, o)| (format!("{}: {}", what, e), o))?;
            }
            _ => {
                // typing and editing never touch the history
                compare_state(&s.history(), &m, &[m.pos]).map_err(|(e, o)| (format!("{}: {}", what, e), o))?;
            }
        }
    }
    Ok(nontrivial)
}

fn line_pool() -> Vec<&'static str> {
    vec!["a", "b", "é", "ab", "a b", "₿", "abc", "get", "set x", "𝄞𝄞", "help", "abcdefgh", "Жук ест", "0123456789abcdef", "a", "b", "ab", "  ", " a", "  get", "a ", "x y z w", "get-  ", "get-", "ge ", "ex  ", "ст ", "he  ", "get-led 1", "a\u{85}b", "\u{80}", "tab\u{9f}", "0123456789012345678901234567890123456789ABCDE"]
}

fn cli_case_strategy() -> impl Strategy<Value = CliCase> {
    let pool = line_pool();
    let op = prop_oneof![
        10 => any::<u16>().prop_map(move |s| Op::Text(pick(&pool, s).to_string())),
        10 => Just(Op::Enter),
        8 => Just(Op::Up),
        5 => Just(Op::Down),
        2 => Just(Op::Backspace),
        3 => Just(Op::Left),
        1 => Just(Op::Right),
        // completion (also the silent kind that only drops blanks) must not confuse what gets recorded
        3 => Just(Op::Tab),
        2 => any::<u16>().prop_map(|s| Op::Char(pick(&['a', 'b', 'é', ' ', '₿'], s))),
    ];
    let sizes = || prop_oneof![Just(0usize), Just(1), Just(2), Just(3), Just(4), Just(5), Just(6), Just(8), Just(10), Just(12), Just(16), Just(24), Just(32), Just(48), Just(64)];
    (sizes(), sizes(), 0u8..4, proptest::collection::vec(op, 0..50), 0u8..3).prop_map(|(cb, hb, es, ops, set)| CliCase {
        cfg: Config {
            cmd_buf: cb,
            hist_buf: hb,
            enter_style: es,
            set: if set == 2 { "group".into() } else { "raw".into() },
            ..Config::default()
        },
        ops,
    })
}

fn run_shard(ctx: &ShardCtx) {
    // G1
    let max_cap = ctx.tier.pick(14usize, 17usize);
    let lines = closure_lines();
    let mut all_ops: Vec<HOp> = lines.iter().map(|l| HOp::Push(l.clone())).collect();
    all_ops.push(HOp::Older);
    all_ops.push(HOp::Newer);
    let mut idx = 0u64;
    let mut states_total = 0u64;
    'caps: for cap in 0..=max_cap {
        let mut seen: HashSet<RefHistory> = HashSet::new();
        let mut queue: VecDeque<RefHistory> = VecDeque::new();
        let start = RefHistory::new(cap);
        seen.insert(start.clone());
        queue.push_back(start);
        while let Some(st) = queue.pop_front() {
            states_total += 1;
            for op in &all_ops {
                let mut next = st.clone();
                let mut evict_or_dup = false;
                match op {
                    HOp::Push(l) => {
                        if next.records(l) {
                            let dup_mid = next.entries.iter().position(|e| e == l).map(|p| p + 1 < next.entries.len()).unwrap_or(false);
                            let evicts = !next.entries.contains(l) && next.used() + l.len() + 1 > next.cap && !next.entries.is_empty();
                            evict_or_dup = dup_mid || evicts;
                        }
                        next.push(l);
                    }
                    HOp::Older => {
                        next.older();
                    }
                    HOp::Newer => {
                        next.newer();
                    }
                }
                if seen.insert(next.clone()) {
                    queue.push_back(next);
                }
                idx += 1;
                if !ctx.mine(idx) {
                    continue;
                }
                ctx.count_eval();
                if ctx.trace_file.is_some() {
                    ctx.trace(&json!({"check": "history-closure", "case": edge_json(cap, &st, op)}));
                }
                if let Err((e, o)) = check_edge(cap, &st, op) {
                    ctx.fail(Failure::new("history-closure", edge_json(cap, &st, op), format!("{:?} on entries {:?} pos {:?} ({}-byte buffer): {}", op, st.entries, st.pos, cap, e), o));
                    break 'caps;
                }
                if evict_or_dup || (st.pos.is_some() && st.entries.len() >= 2) {
                    ctx.nontrivial(fingerprint(&(cap, &st, op)), || edge_json(cap, &st, op));
                }
            }
        }
    }
    ctx.exhaustive(&format!("state-space closure of the history for buffers of 0..={} bytes over 9 lines", max_cap), !ctx.failed());
    if ctx.shard == 0 {
        ctx.class_n("closure:states", states_total);
    }
    let enumerated = ctx.res.borrow().evaluations;
    ctx.class_n("closure:edges checked", enumerated);

    // G2
    let pool: Vec<String> = {
        let mut p: Vec<String> = line_pool().iter().map(|s| s.to_string()).collect();
        p.push(String::new());
        p.push("x".repeat(39));
        p.push("y".repeat(40));
        p.push("é".repeat(20));
        p
    };
    let pool2 = pool.clone();
    let hop = prop_oneof![
        6 => any::<u16>().prop_map(move |s| HOp::Push(pick(&pool, s))),
        3 => (any::<u16>(), any::<u16>()).prop_map(move |(a, b)| HOp::Push(format!("{}{}", pick(&pool2, a), pick(&pool2, b)))),
        1 => "[a-c é₿]{0,12}".prop_map(HOp::Push),
        5 => Just(HOp::Older),
        3 => Just(HOp::Newer),
    ];
    let strat = (0usize..=40, proptest::collection::vec(hop, 0..60));
    ctx.run_prop(
        "history-random",
        ctx.tier.pick(2_000_000, 20_000_000),
        strat,
        |(cap, ops)| seq_json(*cap, ops),
        |(cap, ops)| match run_seq(*cap, ops) {
            Ok(nt) => {
                if nt {
                    ctx.class("random:eviction or mid-list duplicate followed by navigation");
                    ctx.nontrivial(fingerprint(&(cap, ops)), || seq_json(*cap, ops));
                }
                Ok(())
            }
            Err((e, o)) => Err(Failure::new("history-random", Value::Null, e, o)),
        },
    );

    // G4: large buffers around 2^8 and 2^16 ("for every history-buffer size")
    let caps = prop_oneof![
        4 => 250usize..=262,
        4 => 65_530usize..=65_542,
        1 => Just(70_000usize),
        1 => Just(131_080usize),
        2 => 500usize..=3000,
    ];
    ctx.run_prop(
        "history-big",
        ctx.tier.pick(400, 4_000),
        (caps, 4usize..=40, 0usize..=30, 0u32..16),
        |(cap, b, v, s)| big_json(*cap, *b, *v, *s),
        |(cap, b, v, s)| match run_big(*cap, *b, *v, *s) {
            Ok(()) => {
                ctx.class(if *cap > 60_000 { "big:buffers beyond 2^16 bytes" } else { "big:buffers beyond 2^8 bytes" });
                ctx.nontrivial(fingerprint(&("big", cap, b, v, s)), || big_json(*cap, *b, *v, *s));
                Ok(())
            }
            Err((e, o)) => Err(Failure::new("history-big", Value::Null, e, o)),
        },
    );

    // G3
    ctx.run_prop("history-cli", ctx.tier.pick(600_000, 6_000_000), cli_case_strategy(), cli_case_json, |c| match run_cli(c) {
        Ok(nt) => {
            if nt {
                ctx.class("cli:eviction or mid-list duplicate followed by navigation");
                ctx.nontrivial(fingerprint(&(&c.cfg, &c.ops)), || cli_case_json(c));
            }
            Ok(())
        }
        Err((e, o)) => Err(Failure::new("history-cli", Value::Null, e, o)),
    });
}

fn replay(sub: &str, case: &Value) -> Verdict {
    let fail = |e: String, o: String| Failure::new(sub, case.clone(), e, o);
    match sub {
        "history-big" => run_big(
            case["hist_buf"].as_u64().unwrap_or(0) as usize,
            case["len_base"].as_u64().unwrap_or(4) as usize,
            case["len_var"].as_u64().unwrap_or(0) as usize,
            case["salt"].as_u64().unwrap_or(0) as u32,
        )
        .map_err(|(e, o)| fail(e, o)),
        "history-closure" => {
            let cap = case["hist_buf"].as_u64().unwrap_or(0) as usize;
            let st = RefHistory {
                entries: case["entries"].as_array().map(|a| a.iter().map(|s| s.as_str().unwrap_or("").to_string()).collect()).unwrap_or_default(),
                cap,
                pos: case["pos"].as_u64().map(|p| p as usize),
            };
            check_edge(cap, &st, &hop_from(&case["op"])).map_err(|(e, o)| fail(e, o))
        }
        "history-cli" => {
            let c = CliCase {
                cfg: serde_json::from_value(case["cfg"].clone()).map_err(|e| fail("well-formed case".into(), e.to_string()))?,
                ops: serde_json::from_value(case["ops"].clone()).map_err(|e| fail("well-formed case".into(), e.to_string()))?,
            };
            run_cli(&c).map(|_| ()).map_err(|(e, o)| fail(e, o))
        }
        _ => {
            let cap = case["hist_buf"].as_u64().unwrap_or(0) as usize;
            let ops: Vec<HOp> = case["ops"].as_array().map(|a| a.iter().map(hop_from).collect()).unwrap_or_default();
            run_seq(cap, &ops).map(|_| ()).map_err(|(e, o)| fail(e, o))
        }
    }
}
