//! C17 — every Unicode scalar value survives typing, editing, submission and option use.

use embedded_cli::__verif::utils;
use serde_json::{json, Value};
use vmodel::{
    engine::{Failure, ShardCtx, Verdict},
    refs::{is_help_request, quote_token, ref_classify, Key, RArg},
    session::{Chars, CharsSet, Config, EnumSet, RawSet, Sess, Shorts, ShortsSet},
};

use super::{common::real_decode, Check, DEFAULT};

pub fn check() -> Check {
    Check {
        id: "C17",
        run_shard,
        replay,
        floor_quick: 1_000_000,
        floor_thorough: 1_100_000,
        rule: "Exhaustive over all 1,112,031 scalar values >= U+0020 except U+007F. (a) for each scalar, alone and between neighbours of every encoded length ({none, a, e-acute, bitcoin sign, G-clef} on each side, 25 contexts): \
               encode_utf8, char_pop_front, char_count, char_byte_index at every index, common_prefix_len against a sibling and the input decoder are compared with std's UTF-8 functions. \
               (b) through a whole Cli: typed between neighbours, moved over with Left/Right, deleted with Backspace, retyped, submitted inside a command name, as an argument and in a short-option cluster, recalled with Up, edited (Backspace, retype, Left, Right) and resubmitted, recalled again next to its own proper prefix and its own proper suffix, submitted alone between a CR-ended line and its own LF, redrawn through set_prompt and left alone by Tab while the cursor stands left of it (terminal emulator), and rendered in `unexpected option: -X` by a derived command; echo bytes equal typed bytes. \
               (c) a derived command whose short names are 2-, 3- and 4-octet characters in every spelling the macros take (generated from a field identifier, char literal, string literal): alone, clustered, next to each other, and the look-alike whose code is the first octet must be refused. \
               Quick runs (b) for every scalar in five of the 25 neighbour contexts (one left neighbour, rotating with the scalar and the seed, with every right neighbour) and in all 25 for encoded-length boundaries and the special characters; thorough runs all 25 contexts for every scalar. \
               Every scalar is non-trivial; distinct by scalar value (counted once per scalar that passed). Every scalar is also submitted as the value of a `char` field of a derived command (positional; boundary scalars also behind an option) and must come back as that char.",
        assumptions: &[
            "U+007F (DEL) is left open by the property and never typed",
            "`h` is not used as a short option (reserved for help) and `-` is not placed first in a cluster",
            "space, quote and backslash are submitted inside quotes with the documented escapes",
        ],
        exhaustive_only: true,
        ..DEFAULT
    }
}

const NEIGH: [&str; 5] = ["", "a", "é", "₿", "𝄞"];

fn check_utils(c: char) -> Result<(), (String, String)> {
    let mut std_buf = [0u8; 4];
    let std_enc = c.encode_utf8(&mut std_buf).to_string();
    // encode
    let mut buf = [0u8; 4];
    let enc = utils::encode_utf8(c, &mut buf);
    if enc.as_bytes() != std_enc.as_bytes() {
        return Err((format!("encode_utf8({:?}) = {:02x?}", c, std_enc.as_bytes()), format!("{:02x?}", enc.as_bytes())));
    }
    // decoder: exactly this scalar, on its last byte
    let dec = real_decode(std_enc.as_bytes()).map_err(|e| (format!("decoder yields Char({:?})", c), e))?;
    if dec != vec![(std_enc.len() - 1, Key::Char(c))] {
        return Err((format!("decoder yields [({}, Char({:?}))]", std_enc.len() - 1, c), format!("{:?}", dec)));
    }
    for l in NEIGH {
        for r in NEIGH {
            let s = format!("{}{}{}", l, std_enc, r);
            let n = s.chars().count();
            let got = utils::char_count(&s);
            if got != n {
                return Err((format!("char_count({:?}) = {}", s, n), format!("{}", got)));
            }
            for (ci, (bi, _)) in s.char_indices().enumerate() {
                let got = utils::char_byte_index(&s, ci);
                if got != Some(bi) {
                    return Err((format!("char_byte_index({:?}, {}) = Some({})", s, ci, bi), format!("{:?}", got)));
                }
            }
            for extra in [n, n + 1] {
                let got = utils::char_byte_index(&s, extra);
                if got.is_some() {
                    return Err((format!("char_byte_index({:?}, {}) = None", s, extra), format!("{:?}", got)));
                }
            }
            // pop front over the whole string
            let mut rest: &str = &s;
            let mut chars = s.chars();
            loop {
                let exp = chars.next();
                match (utils::char_pop_front(rest), exp) {
                    (None, None) => break,
                    (Some((gc, grest)), Some(ec)) => {
                        if gc != ec || grest != chars.as_str() {
                            return Err((
                                format!("char_pop_front({:?}) = ({:?}, {:?})", rest, ec, chars.as_str()),
                                format!("({:?} = {:#x}, {:?})", gc, gc as u32, grest),
                            ));
                        }
                        rest = grest;
                    }
                    (g, e) => return Err((format!("char_pop_front({:?}) like std: {:?}", rest, e), format!("{:?}", g.map(|x| x.0)))),
                }
            }
            // common prefix against a sibling differing in the last byte of the scalar
            let mut sib = std_enc.as_bytes().to_vec();
            let last = sib.len() - 1;
            sib[last] = if sib.len() == 1 {
                if sib[last] == b'~' { b'}' } else { sib[last] + 1 }
            } else if sib[last] == 0xBF {
                0xBE
            } else {
                sib[last] + 1
            };
            if let Ok(sib_c) = core::str::from_utf8(&sib) {
                let other = format!("{}{}{}", l, sib_c, r);
                let got = utils::common_prefix_len(&s, &other);
                if got != l.len() {
                    return Err((format!("common_prefix_len({:?}, {:?}) = {}", s, other, l.len()), format!("{}", got)));
                }
            }
            let got = utils::common_prefix_len(&s, &s);
            if got != s.len() {
                return Err((format!("common_prefix_len(s, s) = {} for {:?}", s.len(), s), format!("{}", got)));
            }
            let shorter = format!("{}{}", l, std_enc);
            let got = utils::common_prefix_len(&s, &shorter);
            if got != shorter.len() {
                return Err((format!("common_prefix_len({:?}, {:?}) = {}", s, shorter, shorter.len()), format!("{}", got)));
            }
        }
    }
    Ok(())
}

fn type_str<S: vmodel::session::CmdSet>(s: &mut Sess<S>, text: &str) -> Result<(), String> {
    for &b in text.as_bytes() {
        s.byte(b).map_err(|e| format!("process_byte failed with {:?}", e))?;
    }
    Ok(())
}

fn check_cli(c: char, l: &str, r: &str) -> Result<(), (String, String)> {
    let cfg = Config {
        cmd_buf: 64,
        hist_buf: 64,
        // every other scalar is echoed through a sink that accepts only part of each write
        short_writes: (c as u32) % 2 == 1,
        ..Config::default()
    };
    let (s, _) = Sess::<RawSet>::new(&cfg, None);
    let mut s = s.map_err(|e| ("construction succeeds".to_string(), format!("{:?}", e)))?;
    let e = |x: String| ("Ok".to_string(), x);
    let cs = c.to_string();
    // type L X R; echo is the typed bytes
    let o0 = s.out_len();
    let typed = format!("{}{}{}", l, cs, r);
    type_str(&mut s, &typed).map_err(e)?;
    let ed = s.editor();
    if ed.bytes != typed.as_bytes() || ed.cursor != typed.chars().count() {
        return Err((format!("line {:?} cursor {}", typed, typed.chars().count()), format!("{:?} cursor {}", String::from_utf8_lossy(&ed.bytes), ed.cursor)));
    }
    if s.out_from(o0) != typed.as_bytes() {
        return Err((format!("echo {:02x?}", typed.as_bytes()), format!("{:02x?}", s.out_from(o0))));
    }
    // move left over R and X, right over X, backspace X, retype X
    let rn = r.chars().count();
    let ln = l.chars().count();
    for _ in 0..rn + 1 {
        type_str(&mut s, "\x1b[D").map_err(e)?;
    }
    if s.editor().cursor != ln {
        return Err((format!("cursor {} after moving left over {:?}", ln, format!("{}{}", cs, r)), format!("{}", s.editor().cursor)));
    }
    // the application redraws the line while the cursor stands left of X (prompt change): the terminal must show the
    // line with X in it and the cursor where the editor has it
    s.set_prompt(0).map_err(|x| ("set_prompt: Ok".to_string(), format!("{:?}", x)))?;
    {
        let mut sc = vmodel::screen::Screen::new();
        sc.feed(&s.out_from(0));
        let want = format!("$ {}", typed);
        if sc.inconclusive.is_none() && (sc.current_line().trim_end_matches(' ') != want.trim_end_matches(' ') || sc.col != 2 + ln) {
            return Err((
                format!("after set_prompt with the cursor left of {:?}: terminal line {:?}, cursor column {}", cs, want, 2 + ln),
                format!("terminal line {:?}, cursor column {}", sc.current_line(), sc.col),
            ));
        }
    }
    // Tab with the cursor left of X and nothing to complete: the line (every octet of X included) stays as it is
    if !"help".starts_with(typed.trim_matches(' ')) {
        type_str(&mut s, "\t").map_err(e)?;
        let ed = s.editor();
        if ed.bytes != typed.as_bytes() || ed.cursor != ln {
            return Err((
                format!("Tab with nothing to complete leaves line {:?} cursor {}", typed, ln),
                format!("{:?} ({:02x?}) cursor {}", String::from_utf8_lossy(&ed.bytes), ed.bytes, ed.cursor),
            ));
        }
    }
    type_str(&mut s, "\x1b[C").map_err(e)?;
    if s.editor().cursor != ln + 1 {
        return Err((format!("cursor {} after moving right over {:?}", ln + 1, cs), format!("{}", s.editor().cursor)));
    }
    type_str(&mut s, "\x08").map_err(e)?;
    let ed = s.editor();
    let without = format!("{}{}", l, r);
    if ed.bytes != without.as_bytes() || ed.cursor != ln {
        return Err((format!("line {:?} cursor {} after Backspace", without, ln), format!("{:?} cursor {}", String::from_utf8_lossy(&ed.bytes), ed.cursor)));
    }
    type_str(&mut s, &cs).map_err(e)?;
    let ed = s.editor();
    if ed.bytes != typed.as_bytes() || ed.cursor != ln + 1 {
        return Err((format!("line {:?} cursor {} after retyping", typed, ln + 1), format!("{:?} cursor {}", String::from_utf8_lossy(&ed.bytes), ed.cursor)));
    }
    // clear the line with backspaces (cursor to the end first)
    for _ in 0..rn {
        type_str(&mut s, "\x1b[C").map_err(e)?;
    }
    for _ in 0..typed.chars().count() {
        type_str(&mut s, "\x08").map_err(e)?;
    }
    if !s.editor().bytes.is_empty() {
        return Err(("empty line after deleting everything".into(), format!("{:?}", String::from_utf8_lossy(&s.editor().bytes))));
    }
    // submit inside a command name, as an argument, and in a cluster
    let mut toks = vec![format!("c{}{}", cs, r), format!("{}{}", cs, l)];
    if c != 'h' {
        toks.push(format!("-v{}", cs));
    }
    if is_help_request(&toks) != Some(false) {
        toks.truncate(2);
    }
    let line: String = toks.iter().map(|t| quote_token(t, false)).collect::<Vec<_>>().join(" ");
    let exp_args = ref_classify(&toks[1..]);
    type_str(&mut s, &line).map_err(e)?;
    type_str(&mut s, "\r").map_err(e)?;
    let verify = |s: &Sess<RawSet>, n: usize| -> Result<(), (String, String)> {
        let log = &s.proc_.log;
        let got: Option<Vec<RArg>> = log.last().and_then(|c| c.args.iter().map(|a| a.to_ref()).collect());
        if log.len() != n || log[n - 1].name != toks[0].as_bytes() || got.as_ref() != Some(&exp_args) {
            return Err((
                format!("invocation #{} with name {:?} args {:?} for line {:?}", n, toks[0], exp_args, line),
                format!("{} invocations, last {:?}", log.len(), log.last()),
            ));
        }
        Ok(())
    };
    verify(&s, 1)?;
    // recall and resubmit
    type_str(&mut s, "\x1b[A").map_err(e)?;
    if s.editor().bytes != line.as_bytes() {
        return Err((format!("Up recalls {:?}", line), format!("{:?}", String::from_utf8_lossy(&s.editor().bytes))));
    }
    // the recalled line is edited like a typed one: delete its last character, retype it, step left and right
    let last = line.chars().last().unwrap();
    let n = line.chars().count();
    type_str(&mut s, "\x08").map_err(e)?;
    let shorter: String = line.chars().take(n - 1).collect();
    let ed = s.editor();
    if ed.bytes != shorter.as_bytes() || ed.cursor != n - 1 {
        return Err((format!("recalled line after Backspace: {:?} cursor {}", shorter, n - 1), format!("{:?} cursor {}", String::from_utf8_lossy(&ed.bytes), ed.cursor)));
    }
    type_str(&mut s, &last.to_string()).map_err(e)?;
    type_str(&mut s, "\x1b[D\x1b[C").map_err(e)?;
    let ed = s.editor();
    if ed.bytes != line.as_bytes() || ed.cursor != n {
        return Err((format!("recalled line after retyping its last character: {:?} cursor {}", line, n), format!("{:?} cursor {}", String::from_utf8_lossy(&ed.bytes), ed.cursor)));
    }
    type_str(&mut s, "\n").map_err(e)?;
    verify(&s, 2)?;
    // submit a line that is a proper prefix of the stored one (its first token), then recall both: each comes back
    // byte for byte (a history that confuses "starts with" and "equals" cuts the older line, possibly inside X)
    let head = quote_token(&toks[0], false);
    if head.len() < line.len() && line.starts_with(&head) {
        // (another line in between, so that the longer one is no longer the newest entry)
        let other = "zz".to_string();
        type_str(&mut s, "zz\r").map_err(e)?;
        type_str(&mut s, &head).map_err(e)?;
        type_str(&mut s, "\r").map_err(e)?;
        for want in [&head, &other, &line] {
            type_str(&mut s, "\x1b[A").map_err(e)?;
            if s.editor().bytes != want.as_bytes() {
                return Err((format!("after submitting {:?} and then its prefix {:?}, Up recalls {:?}", line, head, want), format!("{:?}", String::from_utf8_lossy(&s.editor().bytes))));
            }
        }
    }
    // the same with a proper suffix: the line once more (it becomes the newest entry), then the line without its first
    // character; a history that takes "ends with" for "equals" does not record the second
    for _ in 0..5 {
        if s.editor().bytes.is_empty() {
            break;
        }
        type_str(&mut s, "\x1b[B").map_err(e)?;
    }
    let suffix: String = line.chars().skip(1).collect();
    if s.editor().bytes.is_empty() && !suffix.trim_matches(' ').is_empty() && !suffix.starts_with(' ') {
        type_str(&mut s, &line).map_err(e)?;
        type_str(&mut s, "\r").map_err(e)?;
        type_str(&mut s, &suffix).map_err(e)?;
        type_str(&mut s, "\r").map_err(e)?;
        for want in [&suffix, &line] {
            type_str(&mut s, "\x1b[A").map_err(e)?;
            if s.editor().bytes != want.as_bytes() {
                return Err((format!("after submitting {:?} and then its suffix {:?}, Up recalls {:?}", line, suffix, want), format!("{:?}", String::from_utf8_lossy(&s.editor().bytes))));
            }
        }
    }
    // a line made of nothing but X, between a line ended by CR and its own LF: the octets of X stand between the two
    // terminators, so they are two Enters (a decoder that remembers the CR across X swallows the LF)
    if c as u32 >= 0x80 && !c.is_whitespace() {
        for _ in 0..5 {
            if s.editor().bytes.is_empty() {
                break;
            }
            type_str(&mut s, "\x1b[B").map_err(e)?;
        }
        if s.editor().bytes.is_empty() {
            type_str(&mut s, "q\r").map_err(e)?;
            let before = s.proc_.log.len();
            type_str(&mut s, &c.to_string()).map_err(e)?;
            type_str(&mut s, "\n").map_err(e)?;
            let log = &s.proc_.log;
            if log.len() != before + 1 || log[before].name != c.to_string().as_bytes() {
                return Err((
                    format!("`q` CR, then {:?} LF: the second line is submitted on its own (one more invocation, with name {:?})", c, c.to_string()),
                    format!("{} more invocation(s), last {:?}", log.len() - before, log.last()),
                ));
            }
        }
    }
    Ok(())
}

fn check_error_rendering(c: char) -> Result<(), (String, String)> {
    if c == 'v' || c == 'h' || c == '-' {
        return Ok(());
    }
    let cfg = Config {
        cmd_buf: 64,
        hist_buf: 0,
        set: "enum".into(),
        ..Config::default()
    };
    let (s, _) = Sess::<EnumSet>::new(&cfg, None);
    let mut s = s.map_err(|e| ("construction succeeds".to_string(), format!("{:?}", e)))?;
    let line = format!("get-led {} 1", quote_token(&format!("-{}", c), false));
    type_str(&mut s, &line).map_err(|x| ("Ok".to_string(), x))?;
    let o0 = s.out_len();
    type_str(&mut s, "\r").map_err(|x| ("Ok".to_string(), x))?;
    let out = s.out_from(o0);
    let exp = format!("\r\nerror: unexpected option: -{}\r\n$ ", c);
    if out != exp.as_bytes() {
        return Err((format!("sink receives {:?} for line {:?}", exp, line), format!("{:?}", String::from_utf8_lossy(&out))));
    }
    Ok(())
}

/// The scalar as the value of a `char` field of a derived command (positional, and behind an option when `both`)
fn check_char_argument(c: char, both: bool) -> Result<(), (String, String)> {
    let q = quote_token(&c.to_string(), false);
    let mut lines = vec![(format!("chr {}", q), format!("{:?}", Chars::Chr { opt: None, c }))];
    if both {
        lines.push((format!("chr -o {} {}", q, q), format!("{:?}", Chars::Chr { opt: Some(c), c })));
    }
    for (line, want) in lines {
        let v = vmodel::genrun::observe_line::<CharsSet>(&line);
        let calls = v["calls"].as_array().cloned().unwrap_or_default();
        let what = format!("derived command with a `char` field, line {:?}", line);
        if v["error"].is_string() || calls.len() != 1 {
            return Err((format!("{}: one dispatch", what), v.to_string()));
        }
        if calls[0]["typed"]["ok"].as_str() != Some(want.as_str()) {
            return Err((format!("{}: parsed as {}", what, want), format!("{} / output {:?}", calls[0]["typed"], v["out"].as_str().unwrap_or(""))));
        }
    }
    Ok(())
}

fn is_boundary(c: char) -> bool {
    let v = c as u32;
    matches!(v, 0x20..=0x22 | 0x2d | 0x5c | 0x68 | 0x7e | 0x80 | 0x7ff | 0x800 | 0xd7ff | 0xe000 | 0xfffd..=0x10001 | 0x10ffff)
}

fn full(c: char, with_cli: bool, all_ctx: bool, rot: usize) -> Result<(), (String, String)> {
    check_utils(c)?;
    if with_cli {
        let k = (c as u32 as usize + rot) % 25;
        // every scalar gets one neighbour context, rotating through all 25; boundaries get all
        if all_ctx || is_boundary(c) {
            for l in NEIGH {
                for r in NEIGH {
                    check_cli(c, l, r)?;
                }
            }
        } else {
            // five of the 25 contexts per scalar in the quick tier: one left neighbour with every right neighbour
            for r in NEIGH {
                check_cli(c, NEIGH[k / 5], r)?;
            }
        }
        check_error_rendering(c)?;
        check_char_argument(c, all_ctx || is_boundary(c))?;
    }
    Ok(())
}

/// (c) short names outside ASCII as the derive macros take them: generated from a field identifier, char literal, string
/// literal; 2-, 3- and 4-octet characters. Expected values are built directly from the declared type.
fn declared_shorts_cases() -> Vec<(String, Result<String, String>)> {
    let base = || (false, None::<u8>, false, false, None::<u8>, false, None::<u8>, false);
    let show = |t: (bool, Option<u8>, bool, bool, Option<u8>, bool, Option<u8>, bool)| {
        format!(
            "{:?}",
            Shorts::Sh {
                юникод: t.0,
                値_level: t.1,
                𠀀z: t.2,
                a: t.3,
                b: t.4,
                c: t.5,
                d: t.6,
                e: t.7
            }
        )
    };
    let mut out: Vec<(String, Result<String, String>)> = Vec::new();
    let flags: [(char, usize); 5] = [('ю', 0), ('𠀀', 2), ('ж', 3), ('佐', 5), ('𑿌', 7)];
    let opts: [(char, usize); 3] = [('値', 1), ('é', 4), ('𐐷', 6)];
    let set_flag = |t: &mut (bool, Option<u8>, bool, bool, Option<u8>, bool, Option<u8>, bool), i: usize| match i {
        0 => t.0 = true,
        2 => t.2 = true,
        3 => t.3 = true,
        5 => t.5 = true,
        _ => t.7 = true,
    };
    let set_opt = |t: &mut (bool, Option<u8>, bool, bool, Option<u8>, bool, Option<u8>, bool), i: usize, v: u8| match i {
        1 => t.1 = Some(v),
        4 => t.4 = Some(v),
        _ => t.6 = Some(v),
    };
    out.push(("sh".into(), Ok(show(base()))));
    for (c, i) in flags {
        let mut t = base();
        set_flag(&mut t, i);
        out.push((format!("sh -{}", c), Ok(show(t))));
        // the character whose code is the first octet of the declared one is a different, undeclared option
        let look = char::from(c.to_string().as_bytes()[0]);
        out.push((format!("sh -{}", look), Err(format!("unexpected option: -{}", look))));
        for (c2, i2) in flags {
            if i2 != i {
                let mut t2 = t;
                set_flag(&mut t2, i2);
                out.push((format!("sh -{}{}", c, c2), Ok(show(t2))));
                out.push((format!("sh -{} -{}", c2, c), Ok(show(t2))));
            }
        }
        for (o, io) in opts {
            let mut t2 = t;
            set_opt(&mut t2, io, 7);
            out.push((format!("sh -{}{} 7", c, o), Ok(show(t2))));
            out.push((format!("sh -{} 7 -{}", o, c), Ok(show(t2))));
        }
    }
    for (o, io) in opts {
        let mut t = base();
        set_opt(&mut t, io, 42);
        out.push((format!("sh -{} 42", o), Ok(show(t))));
        let look = char::from(o.to_string().as_bytes()[0]);
        out.push((format!("sh -{} 42", look), Err(format!("unexpected option: -{}", look))));
    }
    let mut all = base();
    for (_, i) in flags {
        set_flag(&mut all, i);
    }
    out.push(("sh -ю𠀀ж佐𑿌".into(), Ok(show(all))));
    out
}

fn check_declared_short(line: &str, want: &Result<String, String>) -> Result<(), (String, String)> {
    let v = vmodel::genrun::observe_line::<ShortsSet>(line);
    let calls = v["calls"].as_array().cloned().unwrap_or_default();
    let what = format!("derived command with short names outside ASCII, line {:?}", line);
    if v["error"].is_string() || calls.len() != 1 {
        return Err((format!("{}: one dispatch", what), v.to_string()));
    }
    match want {
        Ok(d) => {
            if calls[0]["typed"]["ok"].as_str() != Some(d.as_str()) {
                return Err((format!("{}: parsed as {}", what, d), calls[0]["typed"].to_string()));
            }
        }
        Err(e) => {
            let out = v["out"].as_str().unwrap_or("");
            if calls[0]["typed"]["err"].is_null() || !out.contains(e.as_str()) {
                return Err((format!("{}: rejected with `error: {}`", what, e), format!("{} / output {:?}", calls[0]["typed"], out)));
            }
        }
    }
    Ok(())
}

fn run_shard(ctx: &ShardCtx) {
    if ctx.shard == 0 {
        let cases = declared_shorts_cases();
        let n = cases.len() as u64;
        for (k, (line, want)) in cases.iter().enumerate() {
            if let Err((e, o)) = check_declared_short(line, want) {
                ctx.fail(Failure::new("declared-short", json!({"index": k, "line": line}), e, o));
                return;
            }
        }
        ctx.class_n("lines against a derived command whose short names are 2-4 octet characters (generated, char and string spelling)", n);
    }
    let all_ctx = ctx.tier.pick(false, true);
    let rot = (ctx.seed % 25) as usize;
    let mut idx = 0u64;
    let mut cli_n = 0u64;
    for v in 0x20u32..=0x10FFFF {
        let Some(c) = char::from_u32(v) else { continue };
        if v == 0x7F {
            continue;
        }
        idx += 1;
        if !ctx.mine(idx) {
            continue;
        }
        let with_cli = true;
        ctx.count_eval();
        if ctx.trace_file.is_some() {
            ctx.trace(&json!({"check": "scalar", "case": {"scalar": v, "cli": with_cli, "all_contexts": all_ctx, "rot": rot}}));
        }
        match full(c, with_cli, all_ctx, rot) {
            Ok(()) => {
                if with_cli {
                    cli_n += 1;
                }
                ctx.nontrivial(v as u64, || json!({"scalar": format!("U+{:04X}", v), "char": c.to_string(), "through_cli": with_cli}));
            }
            Err((e, o)) => {
                ctx.fail(Failure::new("scalar", json!({"scalar": v, "cli": with_cli, "all_contexts": all_ctx, "rot": rot}), format!("U+{:04X}: {}", v, e), o));
                break;
            }
        }
    }
    ctx.class_n("scalars through the whole Cli", cli_n);
    ctx.exhaustive("all scalar values >= U+0020 except U+007F (utils + decoder)", !ctx.failed());
    ctx.exhaustive("all scalar values through the Cli (five neighbour contexts each)", !ctx.failed());
    if all_ctx {
        ctx.exhaustive("all scalar values x 25 neighbour contexts through the Cli", !ctx.failed());
    }
}

fn replay(sub: &str, case: &Value) -> Verdict {
    if sub == "declared-short" {
        let k = case["index"].as_u64().unwrap_or(0) as usize;
        let cases = declared_shorts_cases();
        let (line, want) = &cases[k.min(cases.len() - 1)];
        return check_declared_short(line, want).map_err(|(e, o)| Failure::new("declared-short", case.clone(), e, o));
    }
    let v = case["scalar"].as_u64().unwrap_or(0x20) as u32;
    let c = char::from_u32(v).unwrap_or(' ');
    full(
        c,
        case["cli"].as_bool().unwrap_or(true),
        case["all_contexts"].as_bool().unwrap_or(true),
        case["rot"].as_u64().unwrap_or(0) as usize,
    )
    .map_err(|(e, o)| Failure::new("scalar", case.clone(), format!("U+{:04X}: {}", v, e), o))
}
