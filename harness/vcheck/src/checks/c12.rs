//! C12 — help requests are answered by the library in full and never reach the handler.

use std::path::Path;

use proptest::prelude::*;
use proptest::strategy::Union;
use serde_json::{json, Value};
use vmodel::{
    decl::{full_name, ref_help_target, Decl, HelpExpect, Kind, VariantM},
    engine::{fingerprint, Failure, ShardCtx, Tier, Verdict},
    refs::{is_help_request, ref_classify, RArg},
};

use super::{
    declcommon::{self, line_strategy, tokens_strategy, LineCase, Servers},
    Check, PrepError, DEFAULT,
};

pub fn check() -> Check {
    Check {
        id: "C12",
        run_shard,
        replay,
        prepare: Some(prepare),
        prepare_replay: Some(|v| declcommon::prepare_replay("C12", v)),
        quick_limit_s: 1800,
        floor_quick: 2_000,
        floor_thorough: 50_000,
        rule: "Programs: the generated declarations of C09 (with and without doc comments, nested to depth 3, grouped, hidden members), compiled with the repository's macros. Inputs: `help`, `help <path...>` (with parent options before sub-command names), ordinary lines of the declaration with -h / --help inserted at every position \
               (also inside a short-flag cluster), help options only after `--` (must NOT be help), unknown and hidden names, random quoting. \
               Oracle, routing: the command processor is never invoked for a help-shaped line and is invoked for `... -- -h`. Oracle, content: `help` has exactly one list line per command of every visible group (first word = name) carrying its summary and none for hidden groups; help for a path contains every paragraph of the description, \
               exactly one `Usage:` line with the full path, each positional's usage name in order and <COMMAND>/[COMMAND]; one line per positional (usage name + summary); one line per option containing -s, --long, <NAME>/[NAME] and its summary; one list line per sub-command; unknown or hidden => the body is exactly `error: unknown command`. Layout, padding and titles are not pinned. \
               Non-trivial = path depth >= 2, or a grouped/hidden declaration, or the help option is not the last token; distinct by (declaration, tokens).",
        assumptions: &[
            "`help` followed by an option or `--`, `--` inside a help line, an option still waiting for its value, and extra words after a leaf command are left open (skipped)",
            "the target of `<path> ... -h` is the deepest command named before the first help/unknown option",
        ],
        ..DEFAULT
    }
}

fn prepare(tier: Tier, seed: u64, dir: &Path) -> Result<Value, PrepError> {
    declcommon::prepare("C12", tier, seed, dir)
}

fn first_word(l: &str) -> &str {
    l.split_whitespace().next().unwrap_or("")
}

fn is_list_line(l: &str) -> bool {
    l.starts_with("  ")
}

fn check_all(d: &Decl, body: &[&str]) -> Vec<String> {
    let mut errs = Vec::new();
    for r in &d.roots {
        if r.enum_id == "RAW" {
            continue;
        }
        for v in &d.enums[&r.enum_id].variants {
            let lines: Vec<&&str> = body.iter().filter(|l| is_list_line(l) && first_word(l) == v.name).collect();
            if !r.in_help() {
                // (a visible member may answer to the same name; then the line belongs to that one)
                let shadowed = d.roots.iter().any(|o| o.in_help() && d.enums[&o.enum_id].variants.iter().any(|ov| ov.name == v.name));
                if !lines.is_empty() && !shadowed {
                    errs.push(format!("command {:?} of a hidden group is listed", v.name));
                }
                continue;
            }
            if lines.len() != 1 {
                errs.push(format!("command {:?} is listed {} times", v.name, lines.len()));
            } else if let Some(doc) = &v.doc {
                if !lines[0].contains(doc.summary.as_str()) {
                    errs.push(format!("list line of {:?} lacks its summary {:?}", v.name, doc.summary));
                }
                if let Some(p) = foreign_paragraph(lines[0], doc) {
                    errs.push(format!("list line of {:?} carries more than its summary: paragraph {:?}", v.name, p));
                }
            }
        }
    }
    errs
}

/// A line that carries a summary carries the *summary*: text of a later paragraph of the same doc comment on it means the
/// paragraphs were run together (layout is not pinned by this: no paragraph of the declaration is part of another)
fn foreign_paragraph<'a>(l: &str, doc: &'a vmodel::decl::DocM) -> Option<&'a String> {
    doc.paragraphs.iter().skip(1).find(|p| l.contains(p.as_str()))
}

fn check_command(d: &Decl, path: &[String], v: &VariantM, body: &[&str]) -> Vec<String> {
    let mut errs = Vec::new();
    if let Some(doc) = &v.doc {
        for p in &doc.paragraphs {
            if !body.iter().any(|l| l.contains(p.as_str())) {
                errs.push(format!("description paragraph {:?} is missing", p));
            }
        }
        // paragraphs stay paragraphs: no output line holds two of them
        for (i, p) in doc.paragraphs.iter().enumerate() {
            for q in doc.paragraphs.iter().skip(i + 1) {
                if body.iter().any(|l| l.contains(p.as_str()) && l.contains(q.as_str())) {
                    errs.push(format!("description paragraphs {:?} and {:?} are run together on one line", p, q));
                }
            }
        }
    }
    let usage: Vec<&&str> = body.iter().filter(|l| l.starts_with("Usage:")).collect();
    if usage.len() != 1 {
        errs.push(format!("{} `Usage:` lines", usage.len()));
    } else {
        let u = usage[0];
        let full_path = path.join(" ");
        match u.find(full_path.as_str()) {
            None => errs.push(format!("usage line lacks the full command path {:?}", full_path)),
            Some(mut at) => {
                at += full_path.len();
                for f in v.fields.iter().filter(|f| f.kind == Kind::Pos) {
                    let n = full_name(f);
                    match u[at..].find(n.as_str()) {
                        Some(p) => at += p + n.len(),
                        None => errs.push(format!("usage line lacks positional {} (in declaration order)", n)),
                    }
                }
                if let Some(s) = &v.sub {
                    let c = if s.optional { "[COMMAND]" } else { "<COMMAND>" };
                    if !u.contains(c) {
                        errs.push(format!("usage line lacks {}", c));
                    }
                }
            }
        }
    }
    for f in &v.fields {
        let vn = f.value_name.clone().unwrap_or_else(|| f.name.to_uppercase());
        let vn = if f.optional { format!("[{}]", vn) } else { format!("<{}>", vn) };
        let summary = f.doc.as_ref().map(|d| d.summary.clone());
        let has_summary = |l: &str| summary.as_ref().map(|s| l.contains(s.as_str())).unwrap_or(true) && f.doc.as_ref().map(|d| foreign_paragraph(l, d).is_none()).unwrap_or(true);
        if f.kind == Kind::Pos {
            let n = body.iter().filter(|l| is_list_line(l) && first_word(l) == vn && has_summary(l)).count();
            if n != 1 {
                errs.push(format!("{} lines for positional {} with its summary", n, vn));
            }
        } else {
            let n = body
                .iter()
                .filter(|l| {
                    if !is_list_line(l) {
                        return false;
                    }
                    let toks: Vec<&str> = l.split(|c: char| c.is_whitespace() || c == ',').filter(|t| !t.is_empty()).collect();
                    if let Some(s) = f.short {
                        if !toks.contains(&format!("-{}", s).as_str()) {
                            return false;
                        }
                    }
                    if let Some(lg) = &f.long {
                        if !toks.contains(&format!("--{}", lg).as_str()) {
                            return false;
                        }
                    }
                    if f.kind == Kind::Opt && !toks.contains(&vn.as_str()) {
                        return false;
                    }
                    has_summary(l)
                })
                .count();
            if n != 1 {
                errs.push(format!("{} lines for option {} with all its names, value name and summary", n, full_name(f)));
            }
        }
    }
    if let Some(s) = &v.sub {
        for sv in d.sub_variants(&s.enum_id, true) {
            let lines: Vec<&&str> = body.iter().filter(|l| is_list_line(l) && first_word(l) == sv.name).collect();
            if lines.len() != 1 {
                errs.push(format!("sub-command {:?} is listed {} times", sv.name, lines.len()));
            } else if let Some(doc) = &sv.doc {
                if !lines[0].contains(doc.summary.as_str()) {
                    errs.push(format!("list line of sub-command {:?} lacks its summary", sv.name));
                }
                if let Some(p) = foreign_paragraph(lines[0], doc) {
                    errs.push(format!("list line of sub-command {:?} carries more than its summary: paragraph {:?}", sv.name, p));
                }
            }
        }
    }
    errs
}

#[derive(Clone, Debug)]
pub enum Shape {
    /// must be answered by the library
    Help(HelpExpect),
    /// must reach the command processor
    NotHelp,
    Open,
}

pub fn classify(d: &Decl, tokens: &[String]) -> Shape {
    match is_help_request(tokens) {
        None => Shape::Open,
        Some(false) => Shape::NotHelp,
        Some(true) => {
            if tokens[0] == "help" {
                if tokens.len() == 1 {
                    return Shape::Help(HelpExpect::All);
                }
                let t = ref_help_target(d, &tokens[1], &tokens[2..]);
                // `help leaf extra`: extra words after a leaf are left open
                if let HelpExpect::Command { path, .. } = &t {
                    let words = ref_classify(&tokens[2..]).iter().filter(|a| matches!(a, RArg::Value(_))).count();
                    let opts = ref_classify(&tokens[2..]).iter().filter(|a| !matches!(a, RArg::Value(_))).count();
                    if opts == 0 && words + 1 > path.len() {
                        return Shape::Open;
                    }
                }
                Shape::Help(t)
            } else {
                Shape::Help(ref_help_target(d, &tokens[0], &tokens[1..]))
            }
        }
    }
}

pub fn judge(d: &Decl, c: &LineCase, reply: &Value) -> Result<Shape, (String, String)> {
    let what = format!(
        "declaration d{} line {:?}{}",
        d.id,
        c.line,
        ["", " (submitted once, recalled with Up, Enter again)", " (second half typed first, first half inserted in front of it)", " (a stray character typed and erased in the middle)"][reply["route"].as_u64().unwrap_or(0) as usize % 4]
    );
    if let Some(p) = reply.get("panic").and_then(|p| p.as_str()) {
        return Err((format!("{}: no panic", what), p.to_string()));
    }
    if let Some(e) = reply.get("error").and_then(|p| p.as_str()) {
        return Err((format!("{}: Ok (working sink)", what), e.to_string()));
    }
    let shape = classify(d, &c.tokens);
    let calls = reply["calls"].as_array().map(|a| a.len()).unwrap_or(0);
    let out = reply["out"].as_str().unwrap_or("");
    match &shape {
        Shape::Open => {}
        Shape::NotHelp => {
            if calls != 1 {
                return Err((format!("{}: not a help request (help option only after `--`): reaches the command processor once", what), format!("{} invocations, output {:?}", calls, out)));
            }
        }
        Shape::Help(h) => {
            if calls != 0 {
                return Err((format!("{}: a help request never reaches the handler", what), format!("{} invocation(s): {}", calls, reply["calls"])));
            }
            let Some(body) = out.strip_prefix("\r\n").and_then(|o| o.strip_suffix("$ ")) else {
                return Err((format!("{}: output framed by a line break and the prompt", what), format!("{:?}", out)));
            };
            let mut lines: Vec<&str> = body.split("\r\n").collect();
            if lines.last() == Some(&"") {
                lines.pop();
            } else {
                return Err((format!("{}: help output ends with a line break before the prompt", what), format!("{:?}", out)));
            }
            let errs = match h {
                HelpExpect::Unspec(_) => return Ok(Shape::Open),
                HelpExpect::Unknown => {
                    if lines != vec!["error: unknown command"] {
                        vec![format!("body is exactly `error: unknown command`")]
                    } else {
                        vec![]
                    }
                }
                HelpExpect::All => check_all(d, &lines),
                HelpExpect::Command { path, enum_id, ident } => {
                    let v = d.enums[enum_id].variants.iter().find(|v| &v.ident == ident).unwrap();
                    check_command(d, path, v, &lines)
                }
            };
            if !errs.is_empty() {
                return Err((format!("{} ({:?}): complete help", what, h), format!("{} — output:\n{}", errs.join("; "), lines.join("\n"))));
            }
        }
    }
    Ok(shape)
}

fn all_paths(d: &Decl, eid: &str, prefix: Vec<String>, out: &mut Vec<Vec<String>>) {
    for v in &d.enums[eid].variants {
        let mut p = prefix.clone();
        p.push(v.name.clone());
        out.push(p.clone());
        if let Some(s) = &v.sub {
            for (eid, _, _) in d.sub_members(&s.enum_id) {
                all_paths(d, &eid, p.clone(), out);
            }
        }
    }
}

fn help_tokens_strategy(d: &Decl) -> BoxedStrategy<Vec<String>> {
    let mut paths = Vec::new();
    for r in &d.roots {
        if r.enum_id != "RAW" {
            all_paths(d, &r.enum_id, vec![], &mut paths);
        }
    }
    let paths2 = paths.clone();
    let ordinary = tokens_strategy(d);
    let with_help = (ordinary.clone(), any::<u16>(), 0u8..10).prop_map(|(mut t, pos, kind)| {
        // insert a help option somewhere after the command name, before any `--`
        let limit = t.iter().position(|x| x == "--").unwrap_or(t.len());
        let at = 1 + ((pos as usize * limit.max(1)) >> 16).min(limit.saturating_sub(1));
        let at = at.min(limit.max(1));
        // try to put `h` into an existing short cluster
        if kind < 2 {
            if let Some(i) = t[1..limit.max(1)].iter().position(|x| x.starts_with('-') && !x.starts_with("--") && x.chars().count() == 2) {
                t[i + 1].push('h');
                return t;
            }
        }
        t.insert(at.min(t.len()), if kind % 2 == 0 { "--help".to_string() } else { "-h".to_string() });
        t
    });
    // both forms at once: `help <command ...>` where the rest also carries a help option
    let help_and_option = with_help.clone().prop_map(|mut t| {
        t.insert(0, "help".to_string());
        t
    });
    let paths3 = paths2.clone();
    let help_path_option = (any::<u16>(), any::<bool>()).prop_map(move |(sel, long)| {
        let mut t = vec!["help".to_string()];
        if !paths3.is_empty() {
            t.extend(paths3[(sel as usize * paths3.len()) >> 16].clone());
        }
        t.push(if long { "--help".into() } else { "-h".into() });
        t
    });
    let after_dd = ordinary.prop_map(|mut t| {
        if let Some(p) = t.iter().position(|x| x == "--") {
            t.truncate(p);
        }
        t.push("--".into());
        t.push("-h".into());
        t
    });
    let help_path = (any::<u16>(), any::<bool>()).prop_map(move |(sel, _)| {
        let mut t = vec!["help".to_string()];
        if !paths.is_empty() {
            t.extend(paths[(sel as usize * paths.len()) >> 16].clone());
        }
        t
    });
    let path_help = (any::<u16>(), any::<bool>()).prop_map(move |(sel, long)| {
        let mut t: Vec<String> = if paths2.is_empty() { vec!["x".into()] } else { paths2[(sel as usize * paths2.len()) >> 16].clone() };
        t.push(if long { "--help".into() } else { "-h".into() });
        t
    });
    Union::new_weighted(vec![
        (2, Just(vec!["help".to_string()]).boxed()),
        (8, help_path.boxed()),
        (6, path_help.boxed()),
        (12, with_help.boxed()),
        (3, help_and_option.boxed()),
        (3, help_path_option.boxed()),
        (2, after_dd.boxed()),
        (1, Just(vec!["help".to_string(), "nosuch".to_string()]).boxed()),
        (1, Just(vec!["nosuch".to_string(), "-h".to_string()]).boxed()),
    ])
    .boxed()
}

fn run_shard(ctx: &ShardCtx) {
    let set = declcommon::worker_set("C12", ctx);
    let servers = Servers::new();
    let lines_per_decl = ctx.tier.pick(1500u64, 2500u64);
    let mut gi = 0u64;
    for (bin, decls) in &set.crates {
        for d in decls {
            gi += 1;
            if !ctx.mine(gi) || ctx.failed() {
                continue;
            }
            ctx.class("declarations exercised");
            let strat = line_strategy(help_tokens_strategy(d));
            let sub = "derived-help";
            let has_hidden = d.roots.iter().any(|r| r.enum_id != "RAW" && !r.in_help());
            ctx.run_prop(
                &format!("{}-{}", sub, gi),
                lines_per_decl * ctx.nshards as u64,
                strat,
                |c| json!({"decl": d, "tokens": c.tokens, "line": c.line}),
                |c| {
                    let reply = servers.ask(bin, &json!({"d": d.id, "kind": "line", "line": c.line})).map_err(|e| Failure::new(sub, Value::Null, "the process survives the line", e))?;
                    match judge(d, c, &reply) {
                        Ok(Shape::Open) => {
                            ctx.skipped();
                            Ok(())
                        }
                        Ok(shape) => {
                            let (class, depth) = match &shape {
                                Shape::Help(HelpExpect::All) => ("help:list", 0),
                                Shape::Help(HelpExpect::Unknown) => ("help:unknown or hidden", 0),
                                Shape::Help(HelpExpect::Command { path, .. }) => ("help:command", path.len()),
                                Shape::NotHelp => ("not help (after `--`)", 0),
                                _ => ("", 0),
                            };
                            ctx.class(class);
                            let last_is_help = c.tokens.last().map(|t| t == "-h" || t == "--help").unwrap_or(false);
                            let mid = c.tokens[0] != "help" && !last_is_help && matches!(shape, Shape::Help(_));
                            if depth >= 2 || d.grouped || has_hidden || mid {
                                ctx.nontrivial(fingerprint(&(gi, &c.tokens)), || json!({"declaration": format!("{}#d{}", bin.rsplit('/').next().unwrap_or(""), d.id), "line": c.line, "expected": format!("{:?}", shape)}));
                            }
                            Ok(())
                        }
                        Err((e, o)) => Err(Failure::new(sub, Value::Null, e, o)),
                    }
                },
            );
        }
    }
    if let Some(f) = ctx.res.borrow_mut().failure.as_mut() {
        f.check = "derived-help".into();
    }
}

fn replay(_sub: &str, case: &Value) -> Verdict {
    let fail = |e: String, o: String| Failure::new("derived-help", case.clone(), e, o);
    let mut d: Decl = serde_json::from_value(case["decl"].clone()).map_err(|e| fail("a declaration model in the replay file".into(), e.to_string()))?;
    d.id = 0;
    let c = LineCase {
        tokens: case["tokens"].as_array().map(|a| a.iter().map(|s| s.as_str().unwrap_or("").to_string()).collect()).unwrap_or_default(),
        line: case["line"].as_str().unwrap_or("").to_string(),
    };
    let servers = Servers::new();
    let reply = servers.ask(&declcommon::replay_bin("C12"), &json!({"d": 0, "kind": "line", "line": c.line})).map_err(|e| fail("the process survives the line".into(), e))?;
    judge(&d, &c, &reply).map(|_| ()).map_err(|(e, o)| fail(e, o))
}
