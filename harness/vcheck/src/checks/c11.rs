//! C11 — Tab completes to the common continuation of all matching command names.

use proptest::prelude::*;
use serde_json::{json, Value};
use vmodel::{
    engine::{fingerprint, Failure, ShardCtx, Verdict},
    refs::{lcp, ref_complete_p, Completion},
    screen::Screen,
    session::{CmdSet, EnumSet, GroupSet, TlSet, PROMPTS, TL_NAMES, TL_PARTIAL},
};

use super::{
    common::{pick, unhex},
    lockstep::{case_json, replay_lockstep, run_case, Flags},
    declcommon::{self, Servers},
    Check, PrepError, DEFAULT,
};

pub fn check() -> Check {
    Check {
        id: "C11",
        run_shard,
        replay,
        prepare: Some(|tier, seed, dir| -> Result<Value, PrepError> { declcommon::prepare("C11", tier, seed, dir) }),
        prepare_replay: Some(|v| declcommon::prepare_replay("C11", v)),
        quick_limit_s: 1800,
        floor_quick: 20_000,
        floor_thorough: 500_000,
        rule: "Library half: a harness-side Autocomplete implementation that follows the protocol of generated code (every name starting with the request merges its continuation) reads 1-8 generated names over {g e t - a x e-acute Cyrillic-g CJK} \
               with forced shared prefixes, one name a prefix of another, any order; crossed with lines (leading/trailing blanks, one or two words, prefixes of names and of `help`), every cursor position and command buffers from len(line) to len(line)+10 bytes. \
               Session half: several completions on one Cli (erase and retype, recall with Up, submit in between), each Tab judged on the line and cursor observed in front of it. Derived half: the same lines against a derived enum whose matching names are not adjacent in declaration order and a derived group with a hidden member (compiled with the repository's macros). \
               Macro half (programs): generated declarations (C09's grammar: derived and explicit names incl. multi-byte, any order, split across groups, hidden groups, catch-all member), compiled with the repository's macros, probed with prefixes of their own names. \
               Oracle: longest-common-continuation model over scalar values with a trailing space iff exactly one name matches and it fits; when a candidate does not fit the buffer any scalar-boundary prefix of the common continuation without a space is accepted; \
               always: typed non-blank text is a prefix of the result, length <= buffer, well-formed UTF-8, unchanged when nothing matches or an argument was started; the terminal emulator must show prompt + new line. \
               Non-trivial = at least two names match and they are not adjacent in declaration order, or one matching name is a prefix of another, or fewer than 2 bytes are free, or the common continuation contains a multi-byte character; distinct by (names, line, cursor, buffer). Since rounds 11-13: the hand-written Autocomplete also works out the common continuation of its names itself, merges it once and calls mark_partial() exactly when two or more names match (no zone there); lines carry blanks other than U+0020 (ordinary characters) in front of the word, behind it and as a second word; for lines of odd length a Tab with a command set that knows no command is pressed in front of the judged Tab and must change nothing.",
        assumptions: &[
            "duplicate names, a user command called `help`, names containing blanks are outside the quantified domain and not generated",
            "Tab with the cursor inside the trailing blanks may complete or leave the line unchanged (both accepted)",
        ],
        ..DEFAULT
    }
}

#[derive(Clone, Debug)]
pub struct TabCase {
    pub set: String,
    pub names: Vec<String>,
    pub line: String,
    pub cursor: usize,
    pub cap: usize,
    pub prompt: usize,
    /// "tl" set only: where the hand-written Autocomplete calls `mark_partial()` (session::TL_PARTIAL): 0 never, 1-3 always
    /// (before the first merge, after the first, after the last), 4-5 the implementation merges the common continuation of
    /// its matching names itself, once, and marks it partial exactly when two or more match (4 before the merge, 5 after)
    pub partial: u8,
}

pub fn tab_json(c: &TabCase) -> Value {
    json!({"set": c.set, "names": c.names, "line": c.line, "cursor": c.cursor, "cmd_buf": c.cap, "prompt": c.prompt, "partial": c.partial})
}

pub fn tab_from(v: &Value) -> TabCase {
    TabCase {
        set: v["set"].as_str().unwrap_or("tl").to_string(),
        names: v["names"].as_array().map(|a| a.iter().map(|s| s.as_str().unwrap_or("").to_string()).collect()).unwrap_or_default(),
        line: v["line"].as_str().unwrap_or("").to_string(),
        cursor: v["cursor"].as_u64().unwrap_or(0) as usize,
        cap: v["cmd_buf"].as_u64().unwrap_or(0) as usize,
        prompt: v["prompt"].as_u64().unwrap_or(0) as usize,
        partial: v["partial"].as_u64().unwrap_or(0) as u8,
    }
}

/// Returns (non-trivial, unspecified-zone) or the failure
pub fn run_tab<S: CmdSet>(c: &TabCase, names_for_model: &[String]) -> Result<(bool, bool), (String, String)> {
    let obs = vmodel::genrun::observe_tab::<S>(&c.line, c.cursor, c.cap, c.prompt);
    judge_tab(c, names_for_model, &obs)
}

pub fn judge_tab(c: &TabCase, names_for_model: &[String], obs: &vmodel::genrun::TabObs) -> Result<(bool, bool), (String, String)> {
    if let Some(e) = &obs.error {
        return Err(("Ok (working sink)".into(), e.clone()));
    }
    if !obs.fit {
        // the line did not fit (cap < len): not a completion case
        return Ok((false, true));
    }
    let new = match core::str::from_utf8(&obs.new) {
        Ok(t) => t.to_string(),
        Err(_) => return Err(("line is well-formed UTF-8 after Tab".into(), format!("{:02x?}", obs.new))),
    };
    struct Post {
        cursor: usize,
    }
    let post = Post { cursor: obs.cursor };
    struct Pre {
        cursor: usize,
    }
    let pre = Pre { cursor: obs.pre_cursor };
    let what = format!("Tab on {:?} (cursor {}, {}-byte buffer) with names {:?}", c.line, c.cursor, c.cap, names_for_model);
    // universal parts
    if new.len() > c.cap {
        return Err((format!("{}: result fits the buffer", what), format!("{:?} ({} bytes)", new, new.len())));
    }
    let kept = c.line.trim_end_matches(' ');
    if !new.starts_with(kept) {
        return Err((format!("{}: typed non-blank text {:?} is kept as a prefix", what, kept), format!("{:?}", new)));
    }
    if post.cursor > new.chars().count() {
        return Err((format!("{}: cursor within the line", what), format!("cursor {} on {:?}", post.cursor, new)));
    }
    // terminal shows the new line
    let mut sc = Screen::new();
    sc.feed(&obs.out);
    if sc.inconclusive.is_none() {
        let want = format!("{}{}", PROMPTS[c.prompt % PROMPTS.len()], new);
        let want_col = PROMPTS[c.prompt % PROMPTS.len()].chars().count() + post.cursor;
        if sc.current_line().trim_end_matches(' ') != want.trim_end_matches(' ') || sc.col != want_col {
            return Err((
                format!("{}: terminal shows {:?} with the cursor at column {}", what, want, want_col),
                format!("{:?} column {}", sc.current_line(), sc.col),
            ));
        }
    }
    let mut model_names: Vec<String> = names_for_model.to_vec();
    model_names.push("help".to_string());
    // modes 1-3 mark the completion partial whatever matches (the blank is then left open); modes 4-5 mark it exactly when
    // two or more names match, which is what the model says anyway
    let exp = ref_complete_p(&model_names, &c.line, c.cursor, c.cap, matches!(c.partial, 1..=3));
    let mut zone_open = false;
    match &exp {
        Completion::Unchanged => {
            if new != c.line || post.cursor != pre.cursor {
                return Err((format!("{}: line and cursor unchanged", what), format!("{:?} cursor {}", new, post.cursor)));
            }
        }
        Completion::Exactly(e) => {
            if &new != e {
                return Err((format!("{}: line becomes {:?}", what, e), format!("{:?}", new)));
            }
        }
        Completion::OneOf { allowed, or_unchanged } => {
            zone_open = true;
            let ok = allowed.contains(&new) || (*or_unchanged && new == c.line);
            if !ok {
                return Err((format!("{}: line becomes one of {:?}{}", what, allowed, if *or_unchanged { " or stays unchanged" } else { "" }), format!("{:?}", new)));
            }
        }
    }
    // non-triviality
    let word = c.line.trim_matches(' ');
    let single_word = !word.is_empty() && !word.contains(' ');
    let mut nt = false;
    if single_word {
        let idxs: Vec<usize> = model_names.iter().enumerate().filter(|(_, n)| n.starts_with(word)).map(|(i, _)| i).collect();
        let matching: Vec<&str> = idxs.iter().map(|i| model_names[*i].as_str()).collect();
        if matching.len() >= 2 {
            let non_adjacent = idxs.windows(2).any(|w| w[1] != w[0] + 1);
            let prefix_of_other = matching.iter().any(|a| matching.iter().any(|b| a != b && b.starts_with(a)));
            let common = lcp(matching.iter().copied());
            let multi = common[word.len().min(common.len())..].chars().any(|ch| ch.len_utf8() > 1);
            nt = non_adjacent || prefix_of_other || multi;
        }
        if !matching.is_empty() && c.cap < c.line.len() + 2 {
            nt = true;
        }
    }
    Ok((nt, zone_open))
}

fn run_any(c: &TabCase) -> Result<(bool, bool), (String, String)> {
    match c.set.as_str() {
        "enum" => run_tab::<EnumSet>(c, &EnumSet::names()),
        "group" => run_tab::<GroupSet>(c, &GroupSet::names()),
        _ => {
            TL_NAMES.with(|n| *n.borrow_mut() = c.names.clone());
            TL_PARTIAL.with(|p| p.set(c.partial));
            let r = run_tab::<TlSet>(c, &c.names);
            TL_PARTIAL.with(|p| p.set(0));
            r
        }
    }
}

fn name_strategy() -> impl Strategy<Value = Vec<String>> {
    // pairs of characters that share their leading octet(s): é/ê (C3), г/д (D0), 佐/佗 (E4 BD), 𑿆/𑿌 (F0 91 BF) - a common
    // continuation must end on a character boundary; h, l, p so that names meet the built-in `help`
    let alpha: Vec<char> = vec!['g', 'e', 't', '-', 'a', 'x', 'é', 'ê', 'г', 'д', '佐', '佗', '𑿆', '𑿌', 'h', 'l', 'p'];
    let alpha2 = alpha.clone();
    let stem = prop_oneof![
        4 => proptest::collection::vec(any::<u16>().prop_map(move |s| pick(&alpha, s)), 0..4).prop_map(|v| v.into_iter().collect::<String>()),
        1 => prop_oneof![Just("h"), Just("he"), Just("hel"), Just("help"), Just("г佐"), Just("ge𑿆")].prop_map(|s| s.to_string()),
    ];
    let tail = proptest::collection::vec(any::<u16>().prop_map(move |s| pick(&alpha2, s)), 0..5).prop_map(|v| v.into_iter().collect::<String>());
    (stem, proptest::collection::vec((any::<bool>(), tail), 1..=8), any::<u64>()).prop_map(|(stem, tails, shuffle)| {
        let mut names: Vec<String> = Vec::new();
        for (use_stem, t) in tails {
            let n = if use_stem { format!("{}{}", stem, t) } else { t };
            if !n.is_empty() && n != "help" && !names.contains(&n) {
                names.push(n);
            }
        }
        if names.is_empty() {
            names.push("get".into());
        }
        // deterministic shuffle driven by a generated value
        let mut x = shuffle | 1;
        for i in (1..names.len()).rev() {
            x ^= x << 13;
            x ^= x >> 7;
            x ^= x << 17;
            names.swap(i, (x % (i as u64 + 1)) as usize);
        }
        names
    })
}

fn line_for(names: Vec<String>) -> impl Strategy<Value = (Vec<String>, String, u16, usize)> {
    let pool: Vec<String> = {
        let mut p = names.clone();
        p.push("help".into());
        p.push("zz".into());
        p
    };
    (
        0usize..3,
        any::<u16>(),
        any::<u16>(),
        // (blanks other than U+0020 are ordinary characters: in front of the word, behind it or on their own they are part
        // of a word that matches nothing)
        prop_oneof![12 => Just(""), 2 => Just("x"), 2 => Just("é"), 1 => Just("\u{a0}"), 1 => Just("\u{3000}"), 1 => Just("\u{2003}"), 1 => Just("\u{85}")],
        0usize..3,
        prop_oneof![16 => Just(""), 2 => Just("a"), 2 => Just("arg "), 1 => Just("\u{3000}"), 1 => Just("\u{a0} ")],
        any::<u16>(),
        0usize..=10,
        prop_oneof![14 => Just(""), 1 => Just("\u{a0}"), 1 => Just("\u{2003}")],
    )
        .prop_map(move |(lead, which, cut, junk, trail, second, cur, extra, front)| {
            let name = pick(&pool, which);
            let chars: Vec<char> = name.chars().collect();
            let k = (cut as usize * (chars.len() + 1)) >> 16;
            let word: String = chars[..k.min(chars.len())].iter().collect();
            let line = format!("{}{}{}{}{}{}", " ".repeat(lead), front, word, junk, " ".repeat(trail), second);
            (names.clone(), line, cur, extra)
        })
}

fn case_strategy() -> impl Strategy<Value = TabCase> {
    (name_strategy().prop_flat_map(line_for), 0usize..5, prop_oneof![5 => Just(0u8), 1 => Just(1u8), 1 => Just(2u8), 1 => Just(3u8), 2 => Just(4u8), 2 => Just(5u8)]).prop_map(|((names, line, cur, extra), prompt, partial)| {
        let n = line.chars().count();
        TabCase {
            partial,
            set: "tl".into(),
            names,
            cursor: (cur as usize * (n + 1)) >> 16,
            cap: line.len() + extra,
            line,
            prompt,
        }
    })
}

fn fixed_case_strategy() -> impl Strategy<Value = TabCase> {
    let words = vec![
        "", "g", "ge", "get", "get-", "get-l", "get-led", "get-a", "e", "ex", "exit", "s", "se", "set", "n", "net", "h", "he", "help", "э", "эх", "эхо", "go", "go-", "hel", "hell", "hello", "sec", "secret-cmd", "exe", "x", "гг", "с", "ст", "сто", "стоп", "ста", "старт", "a", "at", "até", "c", "co", "conf",
    ];
    (
        prop_oneof![Just("enum"), Just("group")],
        0usize..3,
        any::<u16>(),
        0usize..3,
        prop_oneof![8 => Just(""), 1 => Just("1")],
        any::<u16>(),
        0usize..=10,
        0usize..5,
    )
        .prop_map(move |(set, lead, w, trail, second, cur, extra, prompt)| {
            let line = format!("{}{}{}{}", " ".repeat(lead), pick(&words, w), " ".repeat(trail), second);
            let n = line.chars().count();
            TabCase {
                partial: 0,
                set: set.to_string(),
                names: vec![],
                cursor: (cur as usize * (n + 1)) >> 16,
                cap: line.len() + extra,
                line,
                prompt,
            }
        })
}

const SESSION_FLAGS: Flags = Flags {
    dispatch: false,
    editor: false,
    screen: false,
    framing: false,
    flush: false,
    help_on: true,
    complete: true,
};

fn run_shard(ctx: &ShardCtx) {
    run_macro_half(ctx);
    ctx.run_prop("tab-session", ctx.tier.pick(400_000, 4_000_000), super::lockstep::tab_session_strategy(false), case_json, |c| match run_case(c, SESSION_FLAGS) {
        Ok(stats) => {
            for _ in 0..stats.skipped_unspecified {
                ctx.skipped();
            }
            ctx.count_evals(stats.steps);
            let mut any = false;
            for (p, fp, sample) in stats.nontrivial {
                if p == "C11" {
                    any = true;
                    ctx.nontrivial(fp, || sample.unwrap_or_else(|| case_json(c)));
                }
            }
            if any {
                ctx.class("sessions with several completions on one Cli");
            }
            Ok(())
        }
        Err((e, o)) => Err(Failure::new("tab-session", Value::Null, e, o)),
    });
    for (sub, total, fixed) in [("tab-derived", ctx.tier.pick(1_000_000u64, 6_000_000u64), true), ("tab-library", ctx.tier.pick(3_000_000, 25_000_000), false)] {
        let f = |c: &TabCase| match run_any(c) {
            Ok((nt, open)) => {
                if open {
                    ctx.class("zone: candidate does not fit / cursor inside trailing blanks (several results accepted)");
                }
                if nt {
                    ctx.class(if fixed { "derived:nontrivial" } else { "library:nontrivial" });
                    ctx.nontrivial(fingerprint(&(&c.set, &c.names, &c.line, c.cursor, c.cap)), || tab_json(c));
                }
                Ok(())
            }
            Err((e, o)) => Err(Failure::new(sub, Value::Null, e, o)),
        };
        if fixed {
            ctx.run_prop(sub, total, fixed_case_strategy(), tab_json, f);
        } else {
            ctx.run_prop(sub, total, case_strategy(), tab_json, f);
        }
    }
}

pub fn macro_case_strategy(names: Vec<String>) -> impl Strategy<Value = TabCase> {
    (line_for(names), 0usize..5).prop_map(|((names, line, cur, extra), prompt)| {
        let n = line.chars().count();
        TabCase {
            partial: 0,
            set: "decl".into(),
            names,
            cursor: (cur as usize * (n + 1)) >> 16,
            cap: line.len() + extra,
            line,
            prompt,
        }
    })
}

pub fn obs_from_reply(r: &Value) -> vmodel::genrun::TabObs {
    vmodel::genrun::TabObs {
        fit: r["fit"].as_bool().unwrap_or(false),
        pre_cursor: r["pre_cursor"].as_u64().unwrap_or(0) as usize,
        new: unhex(r["new_hex"].as_str().unwrap_or("")),
        cursor: r["cursor"].as_u64().unwrap_or(0) as usize,
        out: unhex(r["out_hex"].as_str().unwrap_or("")),
        error: r["error"].as_str().map(|s| s.to_string()).or_else(|| r["panic"].as_str().map(|s| s.to_string())),
    }
}

fn run_macro_half(ctx: &ShardCtx) {
    let set = declcommon::worker_set("C11", ctx);
    let servers = Servers::new();
    let per_decl = ctx.tier.pick(1500u64, 3000u64);
    let mut gi = 0u64;
    for (bin, decls) in &set.crates {
        for d in decls {
            gi += 1;
            if !ctx.mine(gi) || ctx.failed() {
                continue;
            }
            ctx.class("macro:declarations exercised");
            let names = d.visible_names();
            let sub = "tab-macro";
            ctx.run_prop(
                &format!("{}-{}", sub, gi),
                per_decl * ctx.nshards as u64,
                macro_case_strategy(names.clone()),
                |c| {
                    let mut j = tab_json(c);
                    j["decl"] = json!(d);
                    j
                },
                |c| {
                    let reply = servers
                        .ask(bin, &json!({"d": d.id, "kind": "tab", "line": c.line, "cursor": c.cursor, "cap": c.cap, "prompt": c.prompt}))
                        .map_err(|e| Failure::new(sub, Value::Null, "the process survives Tab", e))?;
                    match judge_tab(c, &names, &obs_from_reply(&reply)) {
                        Ok((nt, open)) => {
                            if open {
                                ctx.class("zone: candidate does not fit / cursor inside trailing blanks (several results accepted)");
                            }
                            if nt {
                                ctx.class("macro:nontrivial");
                                ctx.nontrivial(fingerprint(&(gi, &c.line, c.cursor, c.cap)), || tab_json(c));
                            }
                            Ok(())
                        }
                        Err((e, o)) => Err(Failure::new(sub, Value::Null, e, o)),
                    }
                },
            );
        }
    }
    if let Some(f) = ctx.res.borrow_mut().failure.as_mut() {
        if f.check.starts_with("tab-macro") {
            f.check = "tab-macro".into();
        }
    }
}

fn replay(sub: &str, case: &Value) -> Verdict {
    if sub == "tab-session" {
        return replay_lockstep(sub, case, SESSION_FLAGS);
    }
    if sub == "tab-macro" {
        let fail = |e: String, o: String| Failure::new(sub, case.clone(), e, o);
        let d: vmodel::decl::Decl = serde_json::from_value(case["decl"].clone()).map_err(|e| fail("a declaration model in the replay file".into(), e.to_string()))?;
        let c = tab_from(case);
        let servers = Servers::new();
        let reply = servers
            .ask(&declcommon::replay_bin("C11"), &json!({"d": 0, "kind": "tab", "line": c.line, "cursor": c.cursor, "cap": c.cap, "prompt": c.prompt}))
            .map_err(|e| fail("the process survives Tab".into(), e))?;
        return judge_tab(&c, &d.visible_names(), &obs_from_reply(&reply)).map(|_| ()).map_err(|(e, o)| fail(e, o));
    }
    run_any(&tab_from(case)).map(|_| ()).map_err(|(e, o)| Failure::new(sub, case.clone(), e, o))
}
