//! C11 — Tab completes to the common continuation of all matching command names.

use proptest::prelude::*;
use serde_json::{json, Value};
use vmodel::{
    engine::{fingerprint, Failure, ShardCtx, Verdict},
    refs::{lcp, ref_complete, Completion},
    screen::Screen,
    session::{CmdSet, Config, EnumSet, GroupSet, Sess, TlSet, PROMPTS, TL_NAMES},
};

use super::{common::pick, Check, DEFAULT};

pub fn check() -> Check {
    Check {
        id: "C11",
        run_shard,
        replay,
        floor_quick: 20_000,
        floor_thorough: 500_000,
        rule: "Library half: a harness-side Autocomplete implementation that follows the protocol of generated code (every name starting with the request merges its continuation) reads 1-8 generated names over {g e t - a x e-acute Cyrillic-g CJK} \
               with forced shared prefixes, one name a prefix of another, any order; crossed with lines (leading/trailing blanks, one or two words, prefixes of names and of `help`), every cursor position and command buffers from len(line) to len(line)+10 bytes. \
               Derived half: the same lines against a derived enum whose matching names are not adjacent in declaration order and a derived group with a hidden member (compiled with the repository's macros). \
               Oracle: longest-common-continuation model over scalar values with a trailing space iff exactly one name matches and it fits; when a candidate does not fit the buffer any scalar-boundary prefix of the common continuation without a space is accepted; \
               always: typed non-blank text is a prefix of the result, length <= buffer, well-formed UTF-8, unchanged when nothing matches or an argument was started; the terminal emulator must show prompt + new line. \
               Non-trivial = at least two names match and they are not adjacent in declaration order, or one matching name is a prefix of another, or fewer than 2 bytes are free, or the common continuation contains a multi-byte character; distinct by (names, line, cursor, buffer).",
        assumptions: &[
            "duplicate names, a user command called `help`, names containing blanks are outside the quantified domain and not generated",
            "Tab with the cursor inside the trailing blanks may complete or leave the line unchanged (both accepted)",
            "generated declarations (program space) are added by the macro half when the declaration generator is available; see evidence notes",
        ],
        ..DEFAULT
    }
}

#[derive(Clone, Debug)]
pub struct TabCase {
    pub set: String,
    pub names: Vec<String>,
    pub line: String,
    pub cursor: usize,
    pub cap: usize,
    pub prompt: usize,
}

pub fn tab_json(c: &TabCase) -> Value {
    json!({"set": c.set, "names": c.names, "line": c.line, "cursor": c.cursor, "cmd_buf": c.cap, "prompt": c.prompt})
}

fn tab_from(v: &Value) -> TabCase {
    TabCase {
        set: v["set"].as_str().unwrap_or("tl").to_string(),
        names: v["names"].as_array().map(|a| a.iter().map(|s| s.as_str().unwrap_or("").to_string()).collect()).unwrap_or_default(),
        line: v["line"].as_str().unwrap_or("").to_string(),
        cursor: v["cursor"].as_u64().unwrap_or(0) as usize,
        cap: v["cmd_buf"].as_u64().unwrap_or(0) as usize,
        prompt: v["prompt"].as_u64().unwrap_or(0) as usize,
    }
}

/// Returns (non-trivial, unspecified-zone) or the failure
pub fn run_tab<S: CmdSet>(c: &TabCase, names_for_model: &[String]) -> Result<(bool, bool), (String, String)> {
    let cfg = Config {
        cmd_buf: c.cap,
        hist_buf: 0,
        prompt: c.prompt,
        set: c.set.clone(),
        ..Config::default()
    };
    let (s, _) = Sess::<S>::new(&cfg, None);
    let mut s = s.map_err(|e| ("construction succeeds".to_string(), format!("{:?}", e)))?;
    for &b in c.line.as_bytes() {
        s.byte(b).map_err(|e| ("Ok".to_string(), format!("{:?}", e)))?;
    }
    let nchars = c.line.chars().count();
    for _ in c.cursor..nchars {
        for &b in b"\x1b[D" {
            s.byte(b).map_err(|e| ("Ok".to_string(), format!("{:?}", e)))?;
        }
    }
    let pre = s.editor();
    if pre.bytes != c.line.as_bytes() || pre.cursor != c.cursor {
        // the line did not fit (cap < len): not a completion case
        return Ok((false, true));
    }
    s.byte(b'\t').map_err(|e| ("Tab: Ok".to_string(), format!("{:?}", e)))?;
    let post = s.editor();
    let new = match post.text() {
        Some(t) => t.to_string(),
        None => return Err(("line is well-formed UTF-8 after Tab".into(), format!("{:02x?}", post.bytes))),
    };
    let what = format!("Tab on {:?} (cursor {}, {}-byte buffer) with names {:?}", c.line, c.cursor, c.cap, names_for_model);
    // universal parts
    if new.len() > c.cap {
        return Err((format!("{}: result fits the buffer", what), format!("{:?} ({} bytes)", new, new.len())));
    }
    let kept = c.line.trim_end_matches(' ');
    if !new.starts_with(kept) {
        return Err((format!("{}: typed non-blank text {:?} is kept as a prefix", what, kept), format!("{:?}", new)));
    }
    if post.cursor > new.chars().count() {
        return Err((format!("{}: cursor within the line", what), format!("cursor {} on {:?}", post.cursor, new)));
    }
    // terminal shows the new line
    let mut sc = Screen::new();
    sc.feed(&s.out_from(0));
    if sc.inconclusive.is_none() {
        let want = format!("{}{}", PROMPTS[c.prompt % PROMPTS.len()], new);
        let want_col = PROMPTS[c.prompt % PROMPTS.len()].chars().count() + post.cursor;
        if sc.current_line().trim_end_matches(' ') != want.trim_end_matches(' ') || sc.col != want_col {
            return Err((
                format!("{}: terminal shows {:?} with the cursor at column {}", what, want, want_col),
                format!("{:?} column {}", sc.current_line(), sc.col),
            ));
        }
    }
    let mut model_names: Vec<String> = names_for_model.to_vec();
    model_names.push("help".to_string());
    let exp = ref_complete(&model_names, &c.line, c.cursor, c.cap);
    let mut zone_open = false;
    match &exp {
        Completion::Unchanged => {
            if new != c.line || post.cursor != pre.cursor {
                return Err((format!("{}: line and cursor unchanged", what), format!("{:?} cursor {}", new, post.cursor)));
            }
        }
        Completion::Exactly(e) => {
            if &new != e {
                return Err((format!("{}: line becomes {:?}", what, e), format!("{:?}", new)));
            }
        }
        Completion::OneOf { allowed, or_unchanged } => {
            zone_open = true;
            let ok = allowed.contains(&new) || (*or_unchanged && new == c.line);
            if !ok {
                return Err((format!("{}: line becomes one of {:?}{}", what, allowed, if *or_unchanged { " or stays unchanged" } else { "" }), format!("{:?}", new)));
            }
        }
    }
    // non-triviality
    let word = c.line.trim_matches(' ');
    let single_word = !word.is_empty() && !word.contains(' ');
    let mut nt = false;
    if single_word {
        let idxs: Vec<usize> = model_names.iter().enumerate().filter(|(_, n)| n.starts_with(word)).map(|(i, _)| i).collect();
        let matching: Vec<&str> = idxs.iter().map(|i| model_names[*i].as_str()).collect();
        if matching.len() >= 2 {
            let non_adjacent = idxs.windows(2).any(|w| w[1] != w[0] + 1);
            let prefix_of_other = matching.iter().any(|a| matching.iter().any(|b| a != b && b.starts_with(a)));
            let common = lcp(matching.iter().copied());
            let multi = common[word.len().min(common.len())..].chars().any(|ch| ch.len_utf8() > 1);
            nt = non_adjacent || prefix_of_other || multi;
        }
        if !matching.is_empty() && c.cap < c.line.len() + 2 {
            nt = true;
        }
    }
    Ok((nt, zone_open))
}

fn run_any(c: &TabCase) -> Result<(bool, bool), (String, String)> {
    match c.set.as_str() {
        "enum" => run_tab::<EnumSet>(c, &EnumSet::names()),
        "group" => run_tab::<GroupSet>(c, &GroupSet::names()),
        _ => {
            TL_NAMES.with(|n| *n.borrow_mut() = c.names.clone());
            run_tab::<TlSet>(c, &c.names)
        }
    }
}

fn name_strategy() -> impl Strategy<Value = Vec<String>> {
    let alpha: Vec<char> = vec!['g', 'e', 't', '-', 'a', 'x', 'é', 'г', '佐'];
    let alpha2 = alpha.clone();
    let stem = proptest::collection::vec(any::<u16>().prop_map(move |s| pick(&alpha, s)), 0..4).prop_map(|v| v.into_iter().collect::<String>());
    let tail = proptest::collection::vec(any::<u16>().prop_map(move |s| pick(&alpha2, s)), 0..5).prop_map(|v| v.into_iter().collect::<String>());
    (stem, proptest::collection::vec((any::<bool>(), tail), 1..=8), any::<u64>()).prop_map(|(stem, tails, shuffle)| {
        let mut names: Vec<String> = Vec::new();
        for (use_stem, t) in tails {
            let n = if use_stem { format!("{}{}", stem, t) } else { t };
            if !n.is_empty() && n != "help" && !names.contains(&n) {
                names.push(n);
            }
        }
        if names.is_empty() {
            names.push("get".into());
        }
        // deterministic shuffle driven by a generated value
        let mut x = shuffle | 1;
        for i in (1..names.len()).rev() {
            x ^= x << 13;
            x ^= x >> 7;
            x ^= x << 17;
            names.swap(i, (x % (i as u64 + 1)) as usize);
        }
        names
    })
}

fn line_for(names: Vec<String>) -> impl Strategy<Value = (Vec<String>, String, u16, usize)> {
    let pool: Vec<String> = {
        let mut p = names.clone();
        p.push("help".into());
        p.push("zz".into());
        p
    };
    (
        0usize..3,
        any::<u16>(),
        any::<u16>(),
        prop_oneof![6 => Just(""), 1 => Just("x"), 1 => Just("é")],
        0usize..3,
        prop_oneof![8 => Just(""), 1 => Just("a"), 1 => Just("arg ")],
        any::<u16>(),
        0usize..=10,
    )
        .prop_map(move |(lead, which, cut, junk, trail, second, cur, extra)| {
            let name = pick(&pool, which);
            let chars: Vec<char> = name.chars().collect();
            let k = (cut as usize * (chars.len() + 1)) >> 16;
            let word: String = chars[..k.min(chars.len())].iter().collect();
            let line = format!("{}{}{}{}{}", " ".repeat(lead), word, junk, " ".repeat(trail), second);
            (names.clone(), line, cur, extra)
        })
}

fn case_strategy() -> impl Strategy<Value = TabCase> {
    (name_strategy().prop_flat_map(line_for), 0usize..5).prop_map(|((names, line, cur, extra), prompt)| {
        let n = line.chars().count();
        TabCase {
            set: "tl".into(),
            names,
            cursor: (cur as usize * (n + 1)) >> 16,
            cap: line.len() + extra,
            line,
            prompt,
        }
    })
}

fn fixed_case_strategy() -> impl Strategy<Value = TabCase> {
    let words = vec![
        "", "g", "ge", "get", "get-", "get-l", "get-led", "get-a", "e", "ex", "exit", "s", "se", "set", "n", "net", "h", "he", "help", "э", "эх", "эхо", "go", "go-", "hel", "hell", "hello", "sec", "secret-cmd", "exe", "x", "гг",
    ];
    (
        prop_oneof![Just("enum"), Just("group")],
        0usize..3,
        any::<u16>(),
        0usize..3,
        prop_oneof![8 => Just(""), 1 => Just("1")],
        any::<u16>(),
        0usize..=10,
        0usize..5,
    )
        .prop_map(move |(set, lead, w, trail, second, cur, extra, prompt)| {
            let line = format!("{}{}{}{}", " ".repeat(lead), pick(&words, w), " ".repeat(trail), second);
            let n = line.chars().count();
            TabCase {
                set: set.to_string(),
                names: vec![],
                cursor: (cur as usize * (n + 1)) >> 16,
                cap: line.len() + extra,
                line,
                prompt,
            }
        })
}

fn run_shard(ctx: &ShardCtx) {
    for (sub, total, fixed) in [("tab-derived", ctx.tier.pick(100_000u64, 1_000_000u64), true), ("tab-library", ctx.tier.pick(400_000, 8_000_000), false)] {
        let f = |c: &TabCase| match run_any(c) {
            Ok((nt, open)) => {
                if open {
                    ctx.class("zone: candidate does not fit / cursor inside trailing blanks (several results accepted)");
                }
                if nt {
                    ctx.class(if fixed { "derived:nontrivial" } else { "library:nontrivial" });
                    ctx.nontrivial(fingerprint(&(&c.set, &c.names, &c.line, c.cursor, c.cap)), || tab_json(c));
                }
                Ok(())
            }
            Err((e, o)) => Err(Failure::new(sub, Value::Null, e, o)),
        };
        if fixed {
            ctx.run_prop(sub, total, fixed_case_strategy(), tab_json, f);
        } else {
            ctx.run_prop(sub, total, case_strategy(), tab_json, f);
        }
    }
}

fn replay(sub: &str, case: &Value) -> Verdict {
    run_any(&tab_from(case)).map(|_| ()).map_err(|(e, o)| Failure::new(sub, case.clone(), e, o))
}
