//! Driver for coverage-guided campaigns (cargo-fuzz / libFuzzer + ASan): build, run N independent
//! processes with fixed work (`-runs`), collect executions, corpus and the first crash.

use std::{
    path::{Path, PathBuf},
    process::{Command, Stdio},
};

use proptest::strategy::{Strategy, ValueTree};
use proptest::test_runner::{Config, RngSeed, TestRunner};
use serde_json::{json, Value};
use vmodel::{
    engine::{fingerprint, guarded, mix_seed, Failure, ShardCtx, Tier},
    fuzzlock,
    lockstep::{self, Case, Flags, GenOpts},
};

use super::PrepError;

pub fn fuzz_bin(target: &str) -> String {
    vmodel::rooted(&format!("harness/target/fuzz/x86_64-unknown-linux-gnu/release/{}", target))
}

/// Ok(seconds) or Err(tail of the build log)
pub fn build(target: &str) -> Result<f64, String> {
    let t0 = std::time::Instant::now();
    let build = Command::new("cargo")
        .args(["+nightly", "fuzz", "build", target, "--target-dir", &vmodel::rooted("harness/target/fuzz")])
        .current_dir(vmodel::rooted("harness/fuzzhost"))
        .env("CARGO_NET_OFFLINE", "true")
        .output();
    match build {
        Ok(o) if o.status.success() => Ok(t0.elapsed().as_secs_f64()),
        Ok(o) => Err(String::from_utf8_lossy(&o.stderr).lines().rev().take(8).collect::<Vec<_>>().join(" | ")),
        Err(e) => Err(e.to_string()),
    }
}

pub struct Campaign<'a> {
    pub target: &'a str,
    pub env: Vec<(String, String)>,
    pub runs: u64,
    pub procs: usize,
    pub seed: u64,
    pub work: PathBuf,
    pub seed_dirs: Vec<PathBuf>,
    pub max_len: usize,
    /// libFuzzer dictionary (byte strings worth inserting)
    pub dict: Option<PathBuf>,
}

pub enum Outcome {
    Done { execs: u64, corpus_files: u64, total_s: f64 },
    Crash { data: Vec<u8>, log: String, file: PathBuf },
    Inconclusive(String),
}

pub fn run(c: &Campaign<'_>) -> Outcome {
    let t0 = std::time::Instant::now();
    let wd = &c.work;
    let mut children = Vec::new();
    for k in 0..c.procs {
        let corpus = wd.join(format!("corpus-{}", k));
        let arts = wd.join(format!("artifacts-{}", k));
        std::fs::create_dir_all(&corpus).unwrap();
        std::fs::create_dir_all(&arts).unwrap();
        let log = std::fs::File::create(wd.join(format!("fuzz-{}.log", k))).unwrap();
        let mut cmd = Command::new(fuzz_bin(c.target));
        cmd.arg(&corpus);
        for d in &c.seed_dirs {
            cmd.arg(d);
        }
        for (k, v) in &c.env {
            cmd.env(k, v);
        }
        if let Some(d) = &c.dict {
            cmd.arg(format!("-dict={}", d.display()));
        }
        let child = cmd
            .arg(format!("-seed={}", c.seed.wrapping_mul(16).wrapping_add(k as u64 + 1) % 4_000_000_000 + 1))
            .arg(format!("-runs={}", c.runs))
            .arg("-len_control=0")
            .arg("-use_value_profile=1")
            .arg(format!("-max_len={}", c.max_len))
            .arg("-timeout=90")
            .arg("-rss_limit_mb=2048")
            .arg(format!("-artifact_prefix={}/", arts.display()))
            .stdin(Stdio::null())
            .stdout(Stdio::from(log.try_clone().unwrap()))
            .stderr(Stdio::from(log))
            .spawn();
        match child {
            Ok(ch) => children.push((k, ch)),
            Err(e) => return Outcome::Inconclusive(format!("cannot start the fuzz target {}: {}", c.target, e)),
        }
    }
    let mut crashed: Vec<usize> = Vec::new();
    for (k, mut ch) in children {
        let st = ch.wait();
        if !st.map(|s| s.success()).unwrap_or(false) {
            crashed.push(k);
        }
    }
    let mut execs = 0u64;
    let mut corpus_files = 0u64;
    for k in 0..c.procs {
        let log = std::fs::read_to_string(wd.join(format!("fuzz-{}.log", k))).unwrap_or_default();
        if let Some(l) = log.lines().rev().find(|l| l.starts_with("Done ")) {
            execs += l.split_whitespace().nth(1).and_then(|x| x.parse::<u64>().ok()).unwrap_or(0);
        }
        corpus_files += std::fs::read_dir(wd.join(format!("corpus-{}", k))).map(|d| d.count() as u64).unwrap_or(0);
    }
    if let Some(&k) = crashed.first() {
        // the saved crashing input is the reproducible unit; prefer the smallest among all processes
        let mut files: Vec<PathBuf> = Vec::new();
        for k in &crashed {
            let arts = wd.join(format!("artifacts-{}", k));
            files.extend(std::fs::read_dir(&arts).map(|d| d.filter_map(|e| e.ok().map(|e| e.path())).collect::<Vec<_>>()).unwrap_or_default());
        }
        files.sort_by_key(|p| (std::fs::metadata(p).map(|m| m.len()).unwrap_or(u64::MAX), p.clone()));
        let log = std::fs::read_to_string(wd.join(format!("fuzz-{}.log", k))).unwrap_or_default();
        let interesting: Vec<&str> = log
            .lines()
            .filter(|l| l.contains("panicked") || l.contains("violated") || l.contains("ERROR: ") || l.contains("SUMMARY") || l.contains("unsafe precondition"))
            .take(6)
            .collect();
        let real: Vec<&PathBuf> = files
            .iter()
            .filter(|f| !f.file_name().map(|n| n.to_string_lossy().starts_with("timeout-") || n.to_string_lossy().starts_with("oom-")).unwrap_or(false))
            .collect();
        if let Some(f) = real.first() {
            return Outcome::Crash {
                data: std::fs::read(f).unwrap_or_default(),
                log: interesting.join(" | "),
                file: (*f).clone(),
            };
        }
        if let Some(f) = files.first() {
            return Outcome::Inconclusive(format!("libFuzzer process {} reported a timeout/oom, not a violation: {}", k, f.display()));
        }
        return Outcome::Inconclusive(format!("libFuzzer process {} exited abnormally without leaving an artifact: {}", k, interesting.join(" | ")));
    }
    Outcome::Done {
        execs,
        corpus_files,
        total_s: t0.elapsed().as_secs_f64(),
    }
}

// ------------------------------------------------------------------------------------------------
// lock-step campaigns (C01, C05, C06, C13, C15)

pub fn lock_work_dir(id: &str, tier: Tier) -> PathBuf {
    vmodel::root().join("harness/run").join(format!("{}-{}-fuzz", id, tier.name()))
}

fn flags_of(names: &str) -> Flags {
    fuzzlock::parse_flags(names)
}

/// Does the case kill a process outright (non-unwinding panic such as a failed unsafe precondition, stack overflow)?
/// Run in a child (`vcheck --one <file>`), so that the parent survives; Some(what happened) if the child died by a signal.
pub fn dies_in_child(id: &str, sub: &str, case: &Value, work: &std::path::Path) -> Option<String> {
    let file = work.join("probe.json");
    let body = json!({"property": id, "check": sub, "seed": 0, "tier": "quick", "case": case, "expected": "", "observed": ""});
    std::fs::write(&file, serde_json::to_string(&body).ok()?).ok()?;
    let out = Command::new(std::env::current_exe().ok()?).arg("--one").arg(&file).stdin(std::process::Stdio::null()).output().ok()?;
    if out.status.code().is_none() {
        let err = String::from_utf8_lossy(&out.stderr);
        let tail: Vec<&str> = err.lines().filter(|l| !l.trim_start().starts_with("at ") && !l.trim_start().chars().next().map(|c| c.is_ascii_digit()).unwrap_or(false)).take(4).collect();
        return Some(format!("the process died ({}): {}", out.status, tail.join(" | ")));
    }
    None
}

/// Delta-debug the ops of a failing case in-process (each candidate under catch_unwind)
pub fn shrink_case(case: &Case, flags: Flags) -> Case {
    let fails = |c: &Case| !matches!(guarded(|| lockstep::run_case(c, flags)), Ok(Ok(_)));
    if !fails(case) {
        return case.clone();
    }
    let mut cur = case.clone();
    let mut chunk = (cur.ops.len() / 2).max(1);
    loop {
        let mut i = 0;
        let mut progressed = false;
        while i < cur.ops.len() {
            let mut cand = cur.clone();
            let end = (i + chunk).min(cand.ops.len());
            cand.ops.drain(i..end);
            if fails(&cand) {
                cur = cand;
                progressed = true;
            } else {
                i += chunk;
            }
        }
        if chunk == 1 {
            if !progressed {
                break;
            }
        } else {
            chunk /= 2;
        }
    }
    // simplify the configuration where the failure survives
    for f in [
        |c: &mut Case| c.cfg.short_writes = false,
        |c: &mut Case| c.cfg.use_new = false,
        |c: &mut Case| c.cfg.arrow_params = false,
        |c: &mut Case| c.cfg.other_set = false,
        |c: &mut Case| c.cfg.enter_style = 0,
        |c: &mut Case| c.cfg.scripts.clear(),
        |c: &mut Case| c.cfg.prompt = 0,
        |c: &mut Case| c.cfg.hist_buf = 32,
        |c: &mut Case| c.cfg.cmd_buf = 32,
    ] {
        let mut cand = cur.clone();
        f(&mut cand);
        if fails(&cand) {
            cur = cand;
        }
    }
    cur
}

/// Preparation step of a lock-step check: build the target, seed a corpus from the check's own
/// proptest strategy (deterministic in VERIF_SEED), run the campaign with the property's oracle on.
pub fn prepare_lockstep(id: &'static str, sub: &'static str, flag_names: &'static str, opts: GenOpts, sets: &'static [&'static str], tier: Tier, seed: u64) -> Result<Value, PrepError> {
    let build_s = match build("lockstep") {
        Ok(s) => s,
        Err(why) => return Ok(json!({"fuzzing": "unavailable: the cargo-fuzz build failed; only the proptest part ran", "build_error_tail": why})),
    };
    let wd = lock_work_dir(id, tier);
    let _ = std::fs::remove_dir_all(&wd);
    std::fs::create_dir_all(&wd).unwrap();
    // seed corpus: sessions drawn from the check's strategy, encoded for the target
    let seeds = wd.join("seeds");
    std::fs::create_dir_all(&seeds).unwrap();
    let mut runner = TestRunner::new(Config {
        rng_seed: RngSeed::Fixed(u64::from_le_bytes(mix_seed(seed, &[id, "fuzz-seeds"], 0)[..8].try_into().unwrap())),
        failure_persistence: None,
        ..Config::default()
    });
    let strat = lockstep::case_strategy(opts, sets);
    for i in 0..tier.pick(200, 600) {
        let c = strat.new_tree(&mut runner).unwrap().current();
        let mut v = fuzzlock::encode(&c, i as u8);
        v.truncate(300);
        std::fs::write(seeds.join(format!("{:016x}.bin", fingerprint(&v))), v).unwrap();
    }
    let runs = tier.pick(8_000, 600_000);
    let camp = Campaign {
        target: "lockstep",
        env: vec![("VFUZZ_FLAGS".into(), flag_names.into())],
        runs,
        procs: 16,
        seed,
        work: wd.clone(),
        seed_dirs: vec![seeds],
        max_len: 300,
        dict: None,
    };
    match run(&camp) {
        Outcome::Done { execs, corpus_files, total_s } => Ok(json!({
            "fuzzing": format!("libFuzzer + AddressSanitizer, 16 processes, target `lockstep` with the {} oracle inside", flag_names),
            "fuzz_executions": execs,
            "extra_evaluations": execs,
            "fuzz_runs_per_process": runs,
            "fuzz_corpus_files_after": corpus_files,
            "fuzz_build_s": (build_s * 10.0).round() / 10.0,
            "fuzz_total_s": (total_s * 10.0).round() / 10.0,
        })),
        Outcome::Inconclusive(why) => Err(PrepError::Inconclusive(why)),
        Outcome::Crash { data, log, file } => {
            let flags = flags_of(flag_names);
            let case = fuzzlock::decode(&data);
            // a case that aborts the process cannot be shrunk in this process
            if let Some(what) = dies_in_child(id, sub, &lockstep::case_json(&case), &wd) {
                return Err(PrepError::Violation(Failure::new(sub, lockstep::case_json(&case), "no abort: the session runs to its end (every unsafe precondition holds)", what)));
            }
            let small = shrink_case(&case, flags);
            let (expected, observed) = match guarded(|| lockstep::run_case(&small, flags)) {
                Ok(Err((e, o))) => (e, o),
                Err(p) => ("no panic".to_string(), p),
                Ok(Ok(_)) => (
                    "the oracle holds (libFuzzer + ASan build)".to_string(),
                    format!("crash in the fuzz build only ({}): {}", file.display(), log),
                ),
            };
            Err(PrepError::Violation(Failure::new(sub, lockstep::case_json(&small), expected, observed)))
        }
    }
}

/// Replay what the campaign kept, in the plain harness build, classifying non-trivial cases
pub fn replay_lock_corpus(ctx: &ShardCtx, id: &'static str, sub: &'static str, flags: Flags) {
    let wd = lock_work_dir(id, ctx.tier);
    let mut files: Vec<PathBuf> = Vec::new();
    for k in 0..16 {
        if let Ok(rd) = std::fs::read_dir(wd.join(format!("corpus-{}", k))) {
            files.extend(rd.filter_map(|e| e.ok().map(|e| e.path())));
        }
    }
    files.sort();
    for (i, f) in files.iter().enumerate() {
        if !ctx.mine(i as u64) || ctx.failed() {
            continue;
        }
        let Ok(data) = std::fs::read(f) else { continue };
        let case = fuzzlock::decode(&data);
        ctx.count_eval();
        if ctx.trace_file.is_some() {
            ctx.trace(&json!({"check": sub, "case": lockstep::case_json(&case)}));
        }
        match guarded(|| lockstep::run_case(&case, flags)) {
            Ok(Ok(stats)) => {
                ctx.class("fuzz corpus entries replayed");
                ctx.count_evals(stats.steps);
                ctx.class_n("api calls checked", stats.steps);
                if let Some(i) = stats.inconclusive {
                    ctx.inconclusive(i);
                }
                let mut any = false;
                for (p, fp, sample) in stats.nontrivial {
                    if p == id {
                        any = true;
                        ctx.nontrivial(fp, || sample.unwrap_or_else(|| lockstep::case_json(&case)));
                    }
                }
                if any {
                    ctx.class("fuzz corpus entries with a non-trivial event");
                }
            }
            Ok(Err((e, o))) => {
                let small = shrink_case(&case, flags);
                ctx.fail(Failure::new(sub, lockstep::case_json(&small), e, o));
            }
            Err(p) => {
                let small = shrink_case(&case, flags);
                ctx.fail(Failure::new(sub, lockstep::case_json(&small), "no panic", p));
            }
        }
    }
}

#[allow(dead_code)]
pub fn unused(_: &Path) {}

// ------------------------------------------------------------------------------------------------
// function-level differential campaigns (C04 decoder, C07 tokeniser, C08 classifier)

/// `mode`: decoder | tokens | args. `seeds`: inputs of the check's own generators. `to_case`: the replay-file form of a
/// crashing input (the crash is re-judged by `vmodel::fdiff::run` in this build before it is reported).
pub fn prepare_fdiff(id: &'static str, mode: &'static str, sub: &'static str, dict: &str, tier: Tier, seed: u64, seeds: Vec<Vec<u8>>, to_case: fn(&[u8]) -> Value) -> Result<Value, PrepError> {
    let build_s = match build("fdiff") {
        Ok(s) => s,
        Err(why) => return Ok(json!({"fuzzing": "unavailable: the cargo-fuzz build failed; only the enumerated and random parts ran", "build_error_tail": why})),
    };
    let wd = lock_work_dir(id, tier);
    let _ = std::fs::remove_dir_all(&wd);
    std::fs::create_dir_all(&wd).unwrap();
    let sd = wd.join("seeds");
    std::fs::create_dir_all(&sd).unwrap();
    for v in seeds {
        std::fs::write(sd.join(format!("{:016x}.bin", fingerprint(&v))), v).unwrap();
    }
    let runs = tier.pick(150_000, 6_000_000);
    let camp = Campaign {
        target: "fdiff",
        env: vec![("VFUZZ_MODE".into(), mode.into())],
        runs,
        procs: 16,
        seed,
        work: wd.clone(),
        seed_dirs: vec![sd],
        max_len: 96,
        dict: Some(vmodel::root().join("corpus/dict").join(dict)),
    };
    match run(&camp) {
        Outcome::Done { execs, corpus_files, total_s } => Ok(json!({
            "fuzzing": format!("libFuzzer + AddressSanitizer, 16 processes, target `fdiff` ({} differential inside), dictionary {}", mode, dict),
            "fuzz_executions": execs,
            "extra_evaluations": execs,
            "fuzz_runs_per_process": runs,
            "fuzz_corpus_files_after": corpus_files,
            "fuzz_build_s": (build_s * 10.0).round() / 10.0,
            "fuzz_total_s": (total_s * 10.0).round() / 10.0,
        })),
        Outcome::Inconclusive(why) => Err(PrepError::Inconclusive(why)),
        Outcome::Crash { data, log, file } => {
            // shrink: drop bytes while the differential still fails in this build
            let fails = |d: &[u8]| !matches!(guarded(|| vmodel::fdiff::run(mode, d)), Ok(Ok(())));
            let mut cur = data.clone();
            if fails(&cur) {
                let mut i = 0;
                while i < cur.len() {
                    let mut cand = cur.clone();
                    cand.remove(i);
                    if fails(&cand) {
                        cur = cand;
                    } else {
                        i += 1;
                    }
                }
            }
            let (expected, observed) = match guarded(|| vmodel::fdiff::run(mode, &cur)) {
                Ok(Err((e, o))) => (e, o),
                Err(p) => ("no panic".to_string(), p),
                Ok(Ok(())) => ("the differential holds (libFuzzer + ASan build)".to_string(), format!("crash in the fuzz build only ({}): {}", file.display(), log)),
            };
            Err(PrepError::Violation(Failure::new(sub, to_case(&cur), expected, observed)))
        }
    }
}

/// Replay what a differential campaign kept, in the plain harness build
pub fn replay_fdiff_corpus(ctx: &ShardCtx, id: &'static str, mode: &'static str, sub: &'static str, to_case: fn(&[u8]) -> Value) {
    let wd = lock_work_dir(id, ctx.tier);
    let mut files: Vec<PathBuf> = Vec::new();
    for k in 0..16 {
        if let Ok(rd) = std::fs::read_dir(wd.join(format!("corpus-{}", k))) {
            files.extend(rd.filter_map(|e| e.ok().map(|e| e.path())));
        }
    }
    files.sort();
    let mut n = 0u64;
    for (i, f) in files.iter().enumerate() {
        if !ctx.mine(i as u64) || ctx.failed() {
            continue;
        }
        let Ok(data) = std::fs::read(f) else { continue };
        ctx.count_eval();
        n += 1;
        match guarded(|| vmodel::fdiff::run(mode, &data)) {
            Ok(Ok(())) => {}
            Ok(Err((e, o))) => ctx.fail(Failure::new(sub, to_case(&data), e, o)),
            Err(p) => ctx.fail(Failure::new(sub, to_case(&data), "no panic", p)),
        }
    }
    ctx.class_n("fuzz corpus entries replayed", n);
}
