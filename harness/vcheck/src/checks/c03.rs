//! C03 — no panic, abort, overflow or out-of-bounds access for any input and buffer size.

use std::{
    path::{Path, PathBuf},
    process::{Command, Stdio},
};

use proptest::prelude::*;
use serde_json::{json, Value};
use vmodel::{
    engine::{fingerprint, Failure, ShardCtx, Tier, Verdict},
    fuzzrun::{self, FuzzOp},
};

use super::{
    common::{hex, pick, unhex},
    hookfree, Check, PrepError, DEFAULT,
};

pub fn fuzz_bin() -> String {
    vmodel::rooted("harness/target/fuzz/x86_64-unknown-linux-gnu/release/session")
}
pub fn seed_corpus() -> String {
    vmodel::rooted("corpus/fuzz")
}

pub fn check() -> Check {
    Check {
        id: "C03",
        run_shard,
        replay,
        prepare: Some(prepare),
        quick_limit_s: 2400,
        thorough_limit_s: 14400,
        floor_quick: 20_000,
        floor_thorough: 300_000,
        rule: "(1) Random sessions (proptest) of raw bytes over the full 0..=255 alphabet - well-formed characters, malformed UTF-8 fragments, controls, CSI sequences, command fragments, Enter/Tab/arrows - with Cli::write and set_prompt interleaved at arbitrary byte positions, both buffer sizes uniform in 0..=64, three command sets, \
               a handler that iterates every argument; built with debug assertions (core's unsafe-precondition checks for get_unchecked, copy_nonoverlapping, unwrap_unchecked, from_u32_unchecked) and overflow checks, in worker processes so that non-unwinding aborts are caught. \
               (2) Coverage-guided: a cargo-fuzz target (libFuzzer + AddressSanitizer, same debug/overflow checks) decoding its input into such a session, 16 independent processes seeded from VERIF_SEED and a committed seed corpus; the final corpus is replayed in the plain harness build. \
               (3) Stack depth: the library built with opt-level 0 is driven on a 96 KiB stack with texts of up to 300 000 line feeds, lines of thousands of tokens / clustered options / characters and histories of thousands of entries; a death is a violation. \
               Oracle inside (1) and (2): no panic/abort/sanitizer report, and after every byte the invariants behind every unchecked operation: valid <= buffer, cursor <= chars, editor bytes well-formed UTF-8, history used <= len and a sequence of NUL-terminated non-empty well-formed entries, navigation cursor on an entry start, every handler string/char sound. \
               Non-trivial = the session reaches a rejected/filled command buffer, a history eviction, a recall after an eviction, a completion with < 2 bytes free, or a buffer of <= 1 byte; distinct by input bytes. Typed-argument grid: nine argument slots of the derived session group x about 250 number spellings around every integer limit (signs, leading zeros, long digit runs, floats, non-digits), each line typed and submitted: a conversion may refuse, it may not panic or overflow.",
        assumptions: &[
            "memory safety is observed through precondition assertions, explicit invariants and ASan on x86-64; layout-dependent undefined behaviour that trips none of them is invisible",
            "if the nightly cargo-fuzz build is unavailable the check degrades to part (1) and says so in the evidence notes",
        ],
        ..DEFAULT
    }
}

fn fuzz_runs(tier: Tier) -> u64 {
    tier.pick(60_000, 2_500_000)
}

fn work_dir(tier: Tier) -> PathBuf {
    vmodel::root().join("harness/run").join(format!("C03-{}-fuzz", tier.name()))
}

const STACK_SCENARIOS: [(&str, &[usize]); 6] = [
    ("write-linefeeds", &[1, 100, 20_000, 300_000]),
    ("handler-linefeeds", &[1, 100, 20_000, 300_000]),
    ("many-tokens", &[10, 3_000]),
    ("long-cluster", &[10, 3_000]),
    ("history-walk", &[10, 3_000]),
    ("long-line-edit", &[10, 3_000]),
];

/// Build the probe (library without optimisation) and run one scenario: Ok(true) survived, Ok(false) died, Err = unavailable
fn stack_probe(scenario: &str, n: usize, build: bool) -> Result<bool, String> {
    if build {
        let b = Command::new("cargo")
            .args(["build", "-p", "stackprobe"])
            .current_dir(vmodel::rooted("harness"))
            .env("CARGO_NET_OFFLINE", "true")
            .output()
            .map_err(|e| e.to_string())?;
        if !b.status.success() {
            return Err(String::from_utf8_lossy(&b.stderr).lines().rev().take(6).collect::<Vec<_>>().join(" | "));
        }
    }
    let o = Command::new(vmodel::rooted("harness/target/debug/stackprobe")).arg(scenario).arg(n.to_string()).output().map_err(|e| e.to_string())?;
    Ok(o.status.success() && String::from_utf8_lossy(&o.stdout).contains("STACKPROBE-OK"))
}

/// Stack depth must not grow with the size of the input: texts with up to 300 000 line feeds, lines with thousands of
/// tokens / options / characters and histories with thousands of entries are pushed through a library built without
/// optimisation on a 96 KiB stack. A death (stack overflow) is a violation.
fn stack_stage() -> Result<Value, PrepError> {
    let t0 = std::time::Instant::now();
    if let Err(why) = stack_probe("write-linefeeds", 1, true) {
        return Ok(json!({"stack_probe": format!("unavailable: {}", why)}));
    }
    let mut runs = 0u64;
    let mut handles = Vec::new();
    for (sc, ns) in STACK_SCENARIOS {
        for n in ns.iter() {
            let (sc, n) = (sc.to_string(), *n);
            handles.push(std::thread::spawn(move || (sc.clone(), n, stack_probe(&sc, n, false))));
        }
    }
    for h in handles {
        let (sc, n, r) = h.join().unwrap();
        runs += 1;
        match r {
            Ok(true) => {}
            Ok(false) => {
                return Err(PrepError::Violation(Failure::new(
                    "stack-depth",
                    json!({"scenario": sc, "n": n}),
                    "the library survives on a 96 KiB stack whatever the size of the text, line or history (built without optimisation)",
                    format!("scenario {} with n = {} died (stack overflow or abort)", sc, n),
                )))
            }
            Err(e) => return Err(PrepError::Inconclusive(format!("stack probe could not run: {}", e))),
        }
    }
    Ok(json!({"stack_probe": "library built with opt-level 0, 96 KiB stack", "stack_probe_runs": runs, "stack_probe_s": (t0.elapsed().as_secs_f64() * 10.0).round() / 10.0}))
}

fn prepare(tier: Tier, seed: u64, dir: &Path) -> Result<Value, PrepError> {
    hookfree::build().map_err(PrepError::Inconclusive)?;
    let mut info = prepare_fuzz(tier, seed, dir)?;
    let st = stack_stage()?;
    if let (Some(a), Some(b)) = (info.as_object_mut(), st.as_object()) {
        for (k, v) in b {
            a.insert(k.clone(), v.clone());
        }
        let extra = a.get("extra_evaluations").and_then(|v| v.as_u64()).unwrap_or(0) + b.get("stack_probe_runs").and_then(|v| v.as_u64()).unwrap_or(0);
        a.insert("extra_evaluations".into(), json!(extra));
    }
    if tier == Tier::Thorough {
        let m = miri_stage(tier, seed)?;
        if let (Some(a), Some(b)) = (info.as_object_mut(), m.as_object()) {
            for (k, v) in b {
                a.insert(k.clone(), v.clone());
            }
            let extra = a.get("extra_evaluations").and_then(|v| v.as_u64()).unwrap_or(0) + b.get("miri_cases").and_then(|v| v.as_u64()).unwrap_or(0);
            a.insert("extra_evaluations".into(), json!(extra));
        }
    }
    Ok(info)
}

/// Thorough tier only: a few hundred generated sessions interpreted by Miri (16 processes), which sees what neither the
/// precondition assertions nor ASan can: aliasing violations, uninitialised reads, dangling or misaligned accesses inside
/// the library's unsafe blocks. A Miri error or a broken invariant is a violation; an unavailable Miri is only noted.
fn miri_stage(tier: Tier, seed: u64) -> Result<Value, PrepError> {
    use proptest::strategy::ValueTree;
    use proptest::test_runner::{Config, RngSeed, TestRunner};
    let t0 = std::time::Instant::now();
    let wd = vmodel::root().join("harness/run").join(format!("C03-{}-miri", tier.name()));
    let _ = std::fs::remove_dir_all(&wd);
    let input = wd.join("in");
    std::fs::create_dir_all(&input).unwrap();
    let per_proc = 24usize;
    let mut runner = TestRunner::new(Config {
        rng_seed: RngSeed::Fixed(u64::from_le_bytes(vmodel::engine::mix_seed(seed, &["C03", "miri"], 0)[..8].try_into().unwrap())),
        failure_persistence: None,
        ..Config::default()
    });
    let strat = case_strategy();
    for i in 0..16 * per_proc {
        let mut v = strat.new_tree(&mut runner).unwrap().current();
        v.truncate(72);
        std::fs::write(input.join(format!("{:04}.bin", i)), v).unwrap();
    }
    let target = vmodel::rooted("harness/target/miri");
    let run = |shard: usize, max: usize| {
        Command::new("cargo")
            .args(["+nightly", "miri", "run", "-q", "-p", "mirirun", "--target-dir", &target, "--"])
            .arg(&input)
            .arg(shard.to_string())
            .arg("16")
            .arg(max.to_string())
            .current_dir(vmodel::rooted("harness"))
            .env("CARGO_NET_OFFLINE", "true")
            .env("MIRIFLAGS", "-Zmiri-disable-isolation")
            .stdin(Stdio::null())
            .stdout(Stdio::piped())
            .stderr(Stdio::piped())
            .spawn()
    };
    // build once (max = 0 runs no case)
    let warm = run(0, 0).and_then(|c| c.wait_with_output());
    match &warm {
        Ok(o) if o.status.success() => {}
        Ok(o) => {
            let tail: Vec<&str> = std::str::from_utf8(&o.stderr).unwrap_or("").lines().rev().take(6).collect();
            return Ok(json!({"miri": format!("unavailable (build or start-up failed): {}", tail.into_iter().rev().collect::<Vec<_>>().join(" | "))}));
        }
        Err(e) => return Ok(json!({"miri": format!("unavailable: {}", e)})),
    }
    let children: Vec<_> = (0..16).filter_map(|k| run(k, per_proc).ok().map(|c| (k, c))).collect();
    let mut cases = 0u64;
    for (k, c) in children {
        let Ok(o) = c.wait_with_output() else { continue };
        let out = String::from_utf8_lossy(&o.stdout).to_string();
        let err = String::from_utf8_lossy(&o.stderr).to_string();
        if o.status.success() {
            cases += out.lines().filter(|l| l.starts_with("MIRI-CASE")).count() as u64;
            continue;
        }
        let last = out.lines().filter(|l| l.starts_with("MIRI-CASE ")).last().map(|l| l[10..].to_string());
        let why: Vec<&str> = err.lines().chain(out.lines()).filter(|l| l.contains("Undefined Behavior") || l.contains("MIRI-ORACLE-FAIL") || l.starts_with("error") || l.contains("panicked")).take(5).collect();
        let Some(file) = last else {
            return Err(PrepError::Inconclusive(format!("Miri process {} failed before its first case: {}", k, why.join(" | "))));
        };
        let data = std::fs::read(&file).unwrap_or_default();
        return Err(PrepError::Violation(Failure::new(
            "fuzz-input",
            json!({"hex": hex(&data), "decoded": format!("{:?}", fuzzrun::decode(&data)), "engine": "miri"}),
            "no undefined behaviour reported by Miri, no panic, no broken invariant",
            why.join(" | "),
        )));
    }
    Ok(json!({"miri": "cargo +nightly miri run, 16 processes", "miri_cases": cases, "miri_s": (t0.elapsed().as_secs_f64() * 10.0).round() / 10.0}))
}

fn prepare_fuzz(tier: Tier, seed: u64, _dir: &Path) -> Result<Value, PrepError> {
    let t0 = std::time::Instant::now();
    let build = Command::new("cargo")
        .args(["+nightly", "fuzz", "build", "session", "--target-dir", &vmodel::rooted("harness/target/fuzz")])
        .current_dir(vmodel::rooted("harness/fuzzhost"))
        .env("CARGO_NET_OFFLINE", "true")
        .output();
    let built = matches!(&build, Ok(o) if o.status.success());
    if !built {
        let why = match build {
            Ok(o) => String::from_utf8_lossy(&o.stderr).lines().rev().take(8).collect::<Vec<_>>().join(" | "),
            Err(e) => e.to_string(),
        };
        return Ok(json!({"fuzzing": "unavailable: the cargo-fuzz build failed; only the proptest part ran", "build_error_tail": why}));
    }
    let build_s = t0.elapsed().as_secs_f64();
    let wd = work_dir(tier);
    let _ = std::fs::remove_dir_all(&wd);
    std::fs::create_dir_all(&wd).unwrap();
    let n = 16usize;
    let runs = fuzz_runs(tier);
    let mut children = Vec::new();
    for k in 0..n {
        let corpus = wd.join(format!("corpus-{}", k));
        let arts = wd.join(format!("artifacts-{}", k));
        std::fs::create_dir_all(&corpus).unwrap();
        std::fs::create_dir_all(&arts).unwrap();
        let log = std::fs::File::create(wd.join(format!("fuzz-{}.log", k))).unwrap();
        let child = Command::new(fuzz_bin())
            .arg(&corpus)
            .arg(seed_corpus())
            .arg(format!("-seed={}", seed.wrapping_mul(16).wrapping_add(k as u64 + 1) % 4_000_000_000 + 1))
            .arg(format!("-runs={}", runs))
            .arg("-len_control=0")
            .arg("-max_len=256")
            .arg("-timeout=90")
            .arg("-rss_limit_mb=2048")
            .arg(format!("-artifact_prefix={}/", arts.display()))
            .stdin(Stdio::null())
            .stdout(Stdio::from(log.try_clone().unwrap()))
            .stderr(Stdio::from(log))
            .spawn();
        match child {
            Ok(c) => children.push((k, c)),
            Err(e) => return Err(PrepError::Inconclusive(format!("cannot start the fuzz target: {}", e))),
        }
    }
    let mut crashed: Vec<usize> = Vec::new();
    for (k, mut c) in children {
        let st = c.wait();
        if !st.map(|s| s.success()).unwrap_or(false) {
            crashed.push(k);
        }
    }
    let mut execs = 0u64;
    let mut corpus_files = 0u64;
    for k in 0..n {
        let log = std::fs::read_to_string(wd.join(format!("fuzz-{}.log", k))).unwrap_or_default();
        if let Some(l) = log.lines().rev().find(|l| l.starts_with("Done ")) {
            execs += l.split_whitespace().nth(1).and_then(|x| x.parse::<u64>().ok()).unwrap_or(0);
        }
        corpus_files += std::fs::read_dir(wd.join(format!("corpus-{}", k))).map(|d| d.count() as u64).unwrap_or(0);
    }
    if let Some(&k) = crashed.first() {
        // the saved crashing input is the reproducible unit
        let arts = wd.join(format!("artifacts-{}", k));
        let mut files: Vec<PathBuf> = std::fs::read_dir(&arts).map(|d| d.filter_map(|e| e.ok().map(|e| e.path())).collect()).unwrap_or_default();
        files.sort_by_key(|p| std::fs::metadata(p).map(|m| m.len()).unwrap_or(u64::MAX));
        let log = std::fs::read_to_string(wd.join(format!("fuzz-{}.log", k))).unwrap_or_default();
        let interesting: Vec<&str> = log
            .lines()
            .filter(|l| l.contains("panicked") || l.contains("C03 invariant") || l.contains("ERROR: ") || l.contains("SUMMARY") || l.contains("unsafe precondition"))
            .take(6)
            .collect();
        if let Some(f) = files.first() {
            let data = std::fs::read(f).unwrap_or_default();
            if f.file_name().map(|n| n.to_string_lossy().starts_with("timeout-") || n.to_string_lossy().starts_with("oom-")).unwrap_or(false) {
                return Err(PrepError::Inconclusive(format!("libFuzzer process {} reported a timeout/oom, not a violation: {}", k, f.display())));
            }
            return Err(PrepError::Violation(Failure::new(
                "fuzz-input",
                json!({"hex": hex(&data), "decoded": format!("{:?}", fuzzrun::decode(&data))}),
                "no panic, abort, failed precondition, sanitizer report or broken invariant (libFuzzer + ASan build)",
                interesting.join(" | "),
            )));
        }
        return Err(PrepError::Inconclusive(format!("libFuzzer process {} exited abnormally without leaving an artifact: {}", k, interesting.join(" | "))));
    }
    Ok(json!({
        "fuzzing": "libFuzzer + AddressSanitizer, 16 processes",
        "fuzz_executions": execs,
        "extra_evaluations": execs,
        "fuzz_runs_per_process": runs,
        "fuzz_corpus_files_after": corpus_files,
        "fuzz_build_s": (build_s * 10.0).round() / 10.0,
        "fuzz_total_s": (t0.elapsed().as_secs_f64() * 10.0).round() / 10.0,
    }))
}

// ------------------------------------------------------------------------------------------------
// proptest part

fn fragment() -> impl Strategy<Value = Vec<u8>> {
    let chars: Vec<char> = vec!['a', 'b', ' ', ' ', '-', '"', '\\', 'h', 'e', 'l', 'p', 'g', 't', 's', 'é', 'Ж', '₿', '𝄞', '\u{7f}', '\u{80}', '\u{7ff}', '\u{800}', '\u{ffff}', '\u{10000}', '\u{10ffff}'];
    let texts: Vec<&'static str> = vec!["get-led ", "get-adc --samples ", "help ", "set ", "--", " -", "эхо ", "-v", "exit", "net up ", "go-to -x ", "-h", "--help", "hello", "secret-cmd", " 1", "\"a b\" "];
    prop_oneof![
        30 => any::<u16>().prop_map(move |s| pick(&chars, s).to_string().into_bytes()),
        8 => any::<u16>().prop_map(move |s| pick(&texts, s).as_bytes().to_vec()),
        8 => proptest::collection::vec(0x80u8..=0xFF, 1..5),
        4 => prop_oneof![Just(vec![0xC0u8, 0x80]), Just(vec![0xED, 0xA0, 0x80]), Just(vec![0xF4, 0x90, 0x80, 0x80]), Just(vec![0xE2, 0x82]), Just(vec![0xF0, 0x9D])],
        10 => Just(vec![b'\r']),
        4 => Just(vec![b'\n']),
        6 => Just(vec![0x08]),
        5 => Just(vec![0x09]),
        8 => Just(b"\x1b[D".to_vec()),
        4 => Just(b"\x1b[C".to_vec()),
        6 => Just(b"\x1b[A".to_vec()),
        3 => Just(b"\x1b[B".to_vec()),
        2 => (prop_oneof![9 => proptest::collection::vec(0x20u8..=0x3F, 0..4), 1 => proptest::collection::vec(0x20u8..=0x3F, 4..70)], 0x40u8..=0x7E).prop_map(|(p, f)| { let mut v = vec![0x1B, b'[']; v.extend(p); v.push(f); v }),
        3 => proptest::collection::vec(any::<u8>(), 1..4),
        1 => Just(vec![0x1B]),
    ]
}

#[derive(Clone, Debug)]
enum ROp {
    Bytes(Vec<u8>),
    Write(usize),
    SetPrompt(usize),
}

fn case_strategy() -> impl Strategy<Value = Vec<u8>> {
    let op = prop_oneof![
        30 => fragment().prop_map(ROp::Bytes),
        2 => (0usize..16).prop_map(ROp::Write),
        2 => (0usize..5).prop_map(ROp::SetPrompt),
    ];
    (0u8..=64, 0u8..=64, any::<u8>(), proptest::collection::vec(op, 0..80)).prop_map(|(cb, hb, c, ops)| {
        let mut data = vec![cb, hb, c & 0x3F];
        for o in ops {
            match o {
                ROp::Bytes(b) => {
                    for x in b {
                        if x == 0xFF {
                            data.extend([0xFF, 0]);
                        } else {
                            data.push(x);
                        }
                    }
                }
                ROp::Write(k) => data.extend([0xFF, 1, k as u8]),
                ROp::SetPrompt(k) => data.extend([0xFF, 2, k as u8]),
            }
        }
        data
    })
}

fn input_json(data: &[u8]) -> Value {
    let (cfg, ops) = fuzzrun::decode(data);
    let mut text = Vec::new();
    for o in &ops {
        if let FuzzOp::Byte(b) = o {
            text.push(*b);
        }
    }
    json!({"hex": hex(data), "cmd_buf": cfg.cmd_buf, "hist_buf": cfg.hist_buf, "set": cfg.set, "input_lossy": String::from_utf8_lossy(&text)})
}

fn classify(ctx: &ShardCtx, prefix: &str, data: &[u8], r: &fuzzrun::Reach) {
    if r.full_buffer {
        ctx.class(&format!("{}:command buffer filled", prefix));
    }
    if r.eviction {
        ctx.class(&format!("{}:history eviction", prefix));
    }
    if r.recall_after_eviction {
        ctx.class(&format!("{}:recall after eviction", prefix));
    }
    if r.completion_tight {
        ctx.class(&format!("{}:completion with < 2 bytes free", prefix));
    }
    if r.tiny_buffer {
        ctx.class(&format!("{}:buffer of <= 1 byte", prefix));
    }
    if r.any() {
        ctx.nontrivial(fingerprint(&data), || input_json(data));
    }
}

/// Every (name, longest_name) pair of a small grid through `Writer::write_list_element` from `Cli::write`: the column width
/// is the caller's to choose (smaller than the name, between its character count and its length, larger)
fn list_element_case(name: &str, longest: usize) -> Result<(), (String, String)> {
    use vmodel::session::{Config, OutCall, RawSet, Sess};
    let what = format!("write_list_element({:?}, \"d\", {})", name, longest);
    let name2 = name.to_string();
    let r = vmodel::engine::guarded(move || {
        let cfg = Config { cmd_buf: 8, hist_buf: 0, ..Config::default() };
        let (s, _) = Sess::<RawSet>::new(&cfg, None);
        let mut s = s.map_err(|e| format!("{:?}", e))?;
        let o0 = s.out_len();
        s.write(&[OutCall::ListElement(name2.clone(), "d".into(), longest)]).map_err(|e| format!("{:?}", e))?;
        Ok::<Vec<u8>, String>(s.out_from(o0))
    });
    match r {
        Err(p) => Err((format!("{}: no panic", what), p)),
        Ok(Err(e)) => Err((format!("{}: Ok on a working sink", what), e)),
        Ok(Ok(out)) => {
            let text = String::from_utf8_lossy(&out).to_string();
            let min_pad = longest.saturating_sub(name.len());
            let want = format!("{}{}", name, " ".repeat(min_pad));
            if !text.contains(&want) || !text.contains('d') || out.len() > 64 + name.len() + longest {
                return Err((format!("{}: the name, at least {} padding blanks and the description, nothing unbounded", what, min_pad), format!("{:?} ({} bytes)", text, out.len())));
            }
            Ok(())
        }
    }
}

/// A line for the derived group of the session checks, typed and submitted: whatever stands where a typed argument is
/// expected, the conversion may refuse it but may not panic or overflow
fn typed_argument_case(line: &str) -> Result<(), (String, String)> {
    use vmodel::session::{Config, GroupSet, Sess};
    let what = format!("line {:?} submitted to the derived command group", line);
    let l = line.to_string();
    let r = vmodel::engine::guarded(move || {
        let cfg = Config { cmd_buf: l.len() + 4, hist_buf: 0, set: "group".into(), ..Config::default() };
        let (s, _) = Sess::<GroupSet>::new(&cfg, None);
        let mut s = s.map_err(|e| format!("{:?}", e))?;
        for &b in l.as_bytes() {
            s.byte(b).map_err(|e| format!("{:?}", e))?;
        }
        s.byte(b'\r').map_err(|e| format!("{:?}", e))?;
        Ok::<(), String>(())
    });
    match r {
        Err(p) => Err((format!("{}: no panic", what), p)),
        Ok(Err(e)) => Err((format!("{}: Ok on a working sink", what), e)),
        Ok(Ok(())) => Ok(()),
    }
}

/// Spellings around the limits of every integer width, signs, leading zeros, long digit runs, floats, blanks and letters
fn number_spellings() -> Vec<String> {
    let mut v: Vec<String> = Vec::new();
    for bits in [7u32, 8, 15, 16, 31, 32, 63, 64, 127, 128] {
        let m = 1u128.checked_shl(bits).map(|x| x.wrapping_sub(1)).unwrap_or(u128::MAX);
        let m = if bits == 128 { u128::MAX } else { m };
        for d in 0..=10u128 {
            v.push(m.saturating_sub(3).saturating_add(d).to_string());
            v.push(format!("-{}", m.saturating_sub(3).saturating_add(d)));
        }
        v.push(format!("{}0", m));
        v.push(format!("{}9", m));
        v.push(format!("+{}", m));
        v.push(format!("000{}", m.saturating_add(1)));
    }
    for t in ["0", "-0", "+0", "00", "1", "-1", "9", "10", "99", "100", "", "-", "+", "--5", "+-5", "5-", "1e3", "1.5", ".5", "5.", "0x10", "1_000", "٣", "１２", "½", "é", "4294967296000000000000000000000000000000000000", "-99999999999999999999999999999999999999999999", "340282366920938463463374607431768211456", "340282366920938463463374607431768211459"] {
        v.push(t.to_string());
    }
    v.sort();
    v.dedup();
    v
}

const TYPED_SLOTS: [&str; 9] = ["get-led {}", "get-led -v {}", "get-adc {}", "get-adc -n {}", "get-adc --samples {} 3", "net iface mtu {}", "go-to -x {}", "go-to -y {} -x {}", "exec {}"];

const LIST_NAMES: [&str; 9] = ["", "a", "é", "имя", "температура", "₿𝄞", "x𝄞", "get-led", "值"];

fn run_shard(ctx: &ShardCtx) {
    if ctx.shard == 0 {
        let mut n = 0u64;
        'grid: for name in LIST_NAMES {
            for longest in 0..=(2 * name.len() + 3) {
                n += 1;
                if let Err((e, o)) = list_element_case(name, longest) {
                    ctx.fail(Failure::new("list-element", json!({"name": name, "longest": longest}), e, o));
                    break 'grid;
                }
            }
        }
        ctx.class_n("write_list_element grid (name x longest_name)", n);
    }
    // every typed slot of the session command group x number spellings around every integer limit
    {
        let mut n = 0u64;
        let mut idx = 0u64;
        'typed: for slot in TYPED_SLOTS {
            for val in number_spellings() {
                idx += 1;
                if !ctx.mine(idx) || ctx.failed() {
                    continue;
                }
                n += 1;
                let quoted = if val.is_empty() { "\"\"".to_string() } else { val.clone() };
                // a value that starts with a dash goes behind `--` where the slot is a positional, and as it is otherwise
                let line = slot.replace("{}", &quoted);
                for l in [line.clone(), format!("{} --", line)] {
                    if let Err((e, o)) = typed_argument_case(&l) {
                        ctx.fail(Failure::new("typed-argument", json!({"line": l}), e, o));
                        break 'typed;
                    }
                }
            }
        }
        ctx.class_n("typed-argument grid (slot x number spelling)", n);
    }
    ctx.run_prop("raw-session", ctx.tier.pick(1_000_000, 10_000_000), case_strategy(), |d| input_json(d), |data| match fuzzrun::run(data) {
        Ok(r) => {
            classify(ctx, "proptest", data, &r);
            Ok(())
        }
        Err(e) => Err(Failure::new("raw-session", Value::Null, "every invariant behind the unchecked operations holds after every byte", e)),
    });
    // buffers that implement Buffer::grow and grant a request only in part
    {
        let n = std::cell::RefCell::new(0u64);
        ctx.run_prop("growable-buffers", ctx.tier.pick(150_000, 2_000_000), case_strategy(), |d| input_json(d), |data| match vmodel::growrun::run(data) {
            Ok(nt) => {
                if nt && !*ctx.stopped.borrow() {
                    *n.borrow_mut() += 1;
                    ctx.nontrivial(fingerprint(&("grow", data)), || input_json(data));
                }
                Ok(())
            }
            Err(e) => Err(Failure::new("growable-buffers", Value::Null, "no panic, and the editor's text is well-formed and fits its storage after every call", e)),
        });
        ctx.class_n("growable buffers: sessions reaching a full buffer or a dispatch", *n.borrow());
    }
    // the same kind of session on the library as users build it (no verif-hooks), against the hooked build
    hookfree::stage_raw(ctx, ctx.tier.pick(60_000, 1_000_000), case_strategy());
    // replay of the seed corpus and of what the fuzzing campaign kept, in the plain harness build
    let mut files: Vec<PathBuf> = Vec::new();
    let mut dirs = vec![PathBuf::from(seed_corpus())];
    for k in 0..16 {
        dirs.push(work_dir(ctx.tier).join(format!("corpus-{}", k)));
    }
    for d in dirs {
        if let Ok(rd) = std::fs::read_dir(d) {
            files.extend(rd.filter_map(|e| e.ok().map(|e| e.path())));
        }
    }
    files.sort();
    for (i, f) in files.iter().enumerate() {
        if !ctx.mine(i as u64) || ctx.failed() {
            continue;
        }
        let Ok(data) = std::fs::read(f) else { continue };
        ctx.count_eval();
        if ctx.trace_file.is_some() {
            ctx.trace(&json!({"check": "fuzz-input", "case": input_json(&data)}));
        }
        match vmodel::engine::guarded(|| fuzzrun::run(&data)) {
            Ok(Ok(r)) => {
                ctx.class("corpus entries replayed");
                classify(ctx, "corpus", &data, &r);
            }
            Ok(Err(e)) => ctx.fail(Failure::new("fuzz-input", input_json(&data), "every invariant holds (corpus replay in the harness build)", e)),
            Err(p) => ctx.fail(Failure::new("fuzz-input", input_json(&data), "no panic (corpus replay in the harness build)", p)),
        }
    }
}

fn replay(sub: &str, case: &Value) -> Verdict {
    if sub == "list-element" {
        return list_element_case(case["name"].as_str().unwrap_or(""), case["longest"].as_u64().unwrap_or(0) as usize).map_err(|(e, o)| Failure::new(sub, case.clone(), e, o));
    }
    if sub == "typed-argument" {
        return typed_argument_case(case["line"].as_str().unwrap_or("")).map_err(|(e, o)| Failure::new(sub, case.clone(), e, o));
    }
    if sub == hookfree::SUB {
        return hookfree::replay(case);
    }
    if sub == "growable-buffers" {
        let data = unhex(case["hex"].as_str().unwrap_or(""));
        return vmodel::growrun::run(&data).map(|_| ()).map_err(|e| Failure::new(sub, case.clone(), "no panic, and the editor's text is well-formed and fits its storage after every call", e));
    }
    if sub == "stack-depth" {
        let (sc, n) = (case["scenario"].as_str().unwrap_or("write-linefeeds"), case["n"].as_u64().unwrap_or(1) as usize);
        return match stack_probe(sc, n, true) {
            Ok(true) => Ok(()),
            Ok(false) => Err(Failure::new(sub, case.clone(), "the library survives on a 96 KiB stack (built without optimisation)", format!("scenario {} with n = {} died", sc, n))),
            Err(e) => Err(Failure::new(sub, case.clone(), "the stack probe builds and runs", e)),
        };
    }
    let data = unhex(case["hex"].as_str().unwrap_or(""));
    // also accept the structured form used by older regressions (cfg + ops of the session driver)
    if case.get("hex").is_none() && case.get("ops").is_some() {
        return super::c02::replay_stream(case);
    }
    fuzzrun::run(&data).map(|_| ()).map_err(|e| Failure::new(sub, case.clone(), "every invariant behind the unchecked operations holds after every byte", e))
}

/// Write a seed corpus for the fuzz target (run once; the files are committed)
pub fn make_corpus(dir: &str, n: usize) {
    use proptest::strategy::ValueTree;
    use proptest::test_runner::{Config, RngSeed, TestRunner};
    std::fs::create_dir_all(dir).unwrap();
    let mut runner = TestRunner::new(Config {
        rng_seed: RngSeed::Fixed(20261001),
        failure_persistence: None,
        ..Config::default()
    });
    let strat = case_strategy();
    for _ in 0..n {
        let v = strat.new_tree(&mut runner).unwrap().current();
        let v = if v.len() > 200 { v[..200].to_vec() } else { v };
        std::fs::write(Path::new(dir).join(format!("{:016x}.bin", fingerprint(&v))), v).unwrap();
    }
    // hand-written seeds: lines from the repository's tests and README
    let lines: [&str; 12] = [
        "set led 1 1\r", "get --config normal -f file -vs\r", "help\r", "help get-led\r", "get-led --help\r", "e\t\r", "g\ta\t\r", "abc\rtest1\rdef\r\x1b[A\x1b[A\x1b[A\x1b[B\r",
        "  \"ab \\\"c\\\\d\\\" \" x\r", "arg1 -бj佗𑿌\r", "ex \x1b[D\x1b[D\t\r", "net up -f eth0\rgo-to -x 3\rэхо привет\r",
    ];
    for (i, l) in lines.iter().enumerate() {
        for (cb, hb, c) in [(32u8, 32u8, 2u8), (8, 8, 1), (40, 0, 22)] {
            let mut v = vec![cb, hb, c];
            v.extend_from_slice(l.as_bytes());
            std::fs::write(Path::new(dir).join(format!("seed-{:02}-{}-{}.bin", i, cb, c)), v).unwrap();
        }
    }
}
