//! Hook-free differential (C01, C03, C05): every other check drives the library with the `verif-hooks` feature on, because
//! it reads the editor, the history and the prompt through the hook accessors. What users build has the feature off. The
//! runner `harness/plainrun` touches the public API only and is built twice, without and with the feature; generated
//! sessions are fed to both and everything observable (sink calls and bytes after every op, every result, what the handler
//! received, panics) must be identical. A difference means that a verdict reached on the hooked build does not carry over
//! to the build users get; a panic in the hook-free build is a C03 violation in its own right.
use std::{
    cell::RefCell,
    io::{BufRead, BufReader, Write},
    process::{Child, ChildStdin, ChildStdout, Command, Stdio},
};

use proptest::prelude::*;
use serde_json::{json, Value};
use vmodel::{
    engine::{fingerprint, Failure, ShardCtx, Verdict},
    lockstep::{self, Case, GenOpts},
    session::{script_text, Op},
};

pub const SUB: &str = "hook-free";

/// 0: no hooks, checked build; 1: hooks, checked build; 2: no hooks, no debug assertions / overflow checks, opt-level 3
const BUILDS: [(&str, &str); 3] = [("off", "release"), ("on", "release"), ("rel", "plain")];
const BUILD_NAMES: [&str; 3] = ["without verif-hooks", "with verif-hooks", "without verif-hooks, debug assertions and overflow checks"];

fn bin(k: usize) -> String {
    vmodel::rooted(&format!("harness/target/plain-{}/{}/plainrun", BUILDS[k].0, BUILDS[k].1))
}

/// Builds both runners from the repository's current tree (parent process, once per run)
pub fn build() -> Result<(), String> {
    for k in 0..3 {
        let on = k == 1;
        let mut args = vec!["build", "--profile", BUILDS[k].1, "-p", "plainrun", "--target-dir"];
        let td = vmodel::rooted(&format!("harness/target/plain-{}", BUILDS[k].0));
        args.push(&td);
        if on {
            args.extend(["--features", "hooks"]);
        }
        let o = Command::new("cargo").args(&args).current_dir(vmodel::rooted("harness")).env("CARGO_NET_OFFLINE", "true").output().map_err(|e| e.to_string())?;
        if !o.status.success() {
            return Err(format!(
                "plainrun ({}) does not build: {}",
                BUILD_NAMES[k],
                String::from_utf8_lossy(&o.stderr).lines().rev().take(8).collect::<Vec<_>>().join(" | ")
            ));
        }
    }
    Ok(())
}

struct Proc {
    child: Child,
    stdin: ChildStdin,
    stdout: BufReader<ChildStdout>,
}

fn spawn(k: usize) -> Result<Proc, String> {
    let mut child = Command::new(bin(k)).stdin(Stdio::piped()).stdout(Stdio::piped()).stderr(Stdio::null()).spawn().map_err(|e| format!("{}: {}", bin(k), e))?;
    let stdin = child.stdin.take().unwrap();
    let stdout = BufReader::new(child.stdout.take().unwrap());
    Ok(Proc { child, stdin, stdout })
}

thread_local! {
    static PROCS: RefCell<[Option<Proc>; 3]> = const { RefCell::new([None, None, None]) };
}

/// One request through one of the two runners; Err = the process died (abort, stack overflow, ...)
fn ask(k: usize, req: &str) -> Result<String, String> {
    PROCS.with(|p| {
        let mut p = p.borrow_mut();
        let slot = &mut p[k];
        if slot.is_none() {
            *slot = Some(spawn(k)?);
        }
        let pr = slot.as_mut().unwrap();
        let sent = writeln!(pr.stdin, "{}", req).and_then(|_| pr.stdin.flush());
        let mut line = String::new();
        let got = pr.stdout.read_line(&mut line);
        if sent.is_err() || !matches!(got, Ok(n) if n > 0) {
            let status = pr.child.wait().map(|s| s.to_string()).unwrap_or_default();
            *slot = None;
            return Err(format!("the runner process died ({})", status));
        }
        Ok(line.trim_end().to_string())
    })
}

pub fn request(c: &Case) -> Value {
    let mut ops: Vec<Value> = Vec::new();
    let mut last: Option<u8> = None;
    for op in &c.ops {
        match op {
            Op::Write(calls) => ops.push(json!({"w": script_text(calls)})),
            Op::SetPrompt(i) => ops.push(json!({"p": i})),
            other => {
                for b in other.encode(&c.cfg, last) {
                    ops.push(json!(b));
                    last = Some(b);
                }
            }
        }
    }
    json!({
        "cmd": c.cfg.cmd_buf, "hist": c.cfg.hist_buf, "prompt": c.cfg.prompt, "new": c.cfg.use_new,
        "set": if c.cfg.set == "raw" { "raw" } else { "enum" },
        "ops": ops,
    })
}

/// Raw byte session in the C03 format
pub fn request_raw(data: &[u8]) -> Value {
    let (cfg, fops) = vmodel::fuzzrun::decode(data);
    let ops: Vec<Value> = fops
        .iter()
        .map(|o| match o {
            vmodel::fuzzrun::FuzzOp::Byte(b) => json!(b),
            vmodel::fuzzrun::FuzzOp::Write(k) => json!({"w": script_text(&vmodel::fuzzrun::write_script_c03(*k))}),
            vmodel::fuzzrun::FuzzOp::SetPrompt(k) => json!({"p": k}),
        })
        .collect();
    json!({"cmd": cfg.cmd_buf, "hist": cfg.hist_buf, "prompt": 0, "new": cfg.use_new, "set": if cfg.set == "raw" { "raw" } else { "enum" }, "ops": ops})
}

pub fn judge(c: &Case) -> Result<bool, (String, String)> {
    judge_req(&request(c))
}

/// Ok(non-trivial) or the failure
pub fn judge_req(req: &Value) -> Result<bool, (String, String)> {
    let req = req.to_string();
    let clip = |s: &str| if s.len() > 1500 { format!("{}…", &s[..s.char_indices().take_while(|(i, _)| *i < 1500).last().map(|(i, _)| i).unwrap_or(0)]) } else { s.to_string() };
    let mut outs: Vec<String> = Vec::new();
    for k in 0..3 {
        match ask(k, &req) {
            Ok(a) => {
                if a.contains("\"panic\"") {
                    return Err((format!("no panic in the build {}", BUILD_NAMES[k]), clip(&a)));
                }
                if a.contains("\"bad_request\"") {
                    return Err(("a well-formed request".into(), clip(&a)));
                }
                outs.push(a);
            }
            Err(e) => return Err((format!("the build {} survives the session", BUILD_NAMES[k]), e)),
        }
    }
    for k in [1usize, 2] {
        let (a, b) = (&outs[0], &outs[k]);
        if a != b {
            // first differing step
            let va: Value = serde_json::from_str(a).unwrap_or(Value::Null);
            let vb: Value = serde_json::from_str(b).unwrap_or(Value::Null);
            let mut at = "outside the steps".to_string();
            if let (Some(sa), Some(sb)) = (va["steps"].as_array(), vb["steps"].as_array()) {
                for (i, (x, y)) in sa.iter().zip(sb.iter()).enumerate() {
                    if x != y {
                        at = format!("op #{}: {} / {}", i, x, y);
                        break;
                    }
                }
            }
            return Err((
                format!("the build {} behaves exactly like the build {} (sink calls, results, handler log)", BUILD_NAMES[0], BUILD_NAMES[k]),
                format!("first difference at {}; first build: {}; second build: {}", at, clip(a), clip(b)),
            ));
        }
    }
    // non-trivial: something reached the handler or an API call happened
    Ok(outs[0].contains("\"name\"") || req.contains("\"w\"") || req.contains("\"p\""))
}

pub fn stage(ctx: &ShardCtx, total: u64, opts: GenOpts, sets: &'static [&'static str]) {
    if ctx.failed() {
        return;
    }
    let n = RefCell::new(0u64);
    // general sessions and completion-centred ones
    let strat = prop_oneof![4 => lockstep::case_strategy(opts, sets), 1 => lockstep::tab_session_strategy(true)];
    ctx.run_prop(SUB, total, strat, lockstep::case_json, |c: &Case| match judge(c) {
        Ok(nt) => {
            if nt && !*ctx.stopped.borrow() {
                *n.borrow_mut() += 1;
                ctx.nontrivial(fingerprint(&("hook-free", &c.cfg, &c.ops)), || lockstep::case_json(c));
            }
            Ok(())
        }
        Err((e, o)) => Err(Failure::new(SUB, lockstep::case_json(c), e, o)),
    });
    ctx.class_n("hook-free differential: sessions with a dispatch or an API call", *n.borrow());
    PROCS.with(|p| {
        for s in p.borrow_mut().iter_mut() {
            if let Some(mut pr) = s.take() {
                drop(pr.stdin);
                let _ = pr.child.wait();
            }
        }
    });
}

pub fn stage_raw(ctx: &ShardCtx, total: u64, strat: impl Strategy<Value = Vec<u8>>) {
    if ctx.failed() {
        return;
    }
    let n = RefCell::new(0u64);
    let hex = |d: &[u8]| d.iter().map(|b| format!("{:02x}", b)).collect::<String>();
    ctx.run_prop(SUB, total, strat, |d: &Vec<u8>| json!({"hex": hex(d)}), |d: &Vec<u8>| match judge_req(&request_raw(d)) {
        Ok(nt) => {
            if nt && !*ctx.stopped.borrow() {
                *n.borrow_mut() += 1;
                ctx.nontrivial(fingerprint(&("hook-free", d)), || json!({"hex": hex(d)}));
            }
            Ok(())
        }
        Err((e, o)) => Err(Failure::new(SUB, json!({"hex": hex(d)}), e, o)),
    });
    ctx.class_n("hook-free differential: raw byte sessions with a dispatch or an API call", *n.borrow());
    PROCS.with(|p| {
        for s in p.borrow_mut().iter_mut() {
            if let Some(mut pr) = s.take() {
                drop(pr.stdin);
                let _ = pr.child.wait();
            }
        }
    });
}

pub fn replay(case: &Value) -> Verdict {
    if let Err(e) = build() {
        return Err(Failure::new(SUB, case.clone(), "both runners build", e));
    }
    if let Some(h) = case["hex"].as_str() {
        let data: Vec<u8> = (0..h.len() / 2).filter_map(|i| u8::from_str_radix(&h[2 * i..2 * i + 2], 16).ok()).collect();
        return judge_req(&request_raw(&data)).map(|_| ()).map_err(|(e, o)| Failure::new(SUB, case.clone(), e, o));
    }
    let c = lockstep::case_from_json(case).map_err(|e| Failure::new(SUB, case.clone(), "a well-formed case", e))?;
    judge(&c).map(|_| ()).map_err(|(e, o)| Failure::new(SUB, case.clone(), e, o))
}
