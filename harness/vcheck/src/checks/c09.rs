//! C09 — derived command parsers accept and reject exactly what the declaration says.

use std::path::Path;

use serde_json::{json, Value};
use vmodel::{
    decl::{ref_parse, Decl, Expect},
    engine::{fingerprint, Failure, ShardCtx, Tier, Verdict},
    refs::{is_help_request, ref_classify, RArg},
    session::PErr,
};

use super::{
    declcommon::{self, line_strategy, tokens_strategy, LineCase, Servers},
    Check, PrepError, DEFAULT,
};

pub fn check() -> Check {
    Check {
        id: "C09",
        run_shard,
        replay,
        prepare: Some(prepare),
        prepare_replay: Some(|v| declcommon::prepare_replay("C09", v)),
        quick_limit_s: 1800,
        floor_quick: 3_000,
        floor_thorough: 100_000,
        rule: "Programs: declarations drawn from a grammar of everything the derive attributes express (1-5 variants: unit / struct / tuple-subcommand; derived and explicit names incl. Cyrillic and CJK; 0-6 fields of all 17 supported types, plain or Option, positional / short / long / both with generated or explicit names, value_name, \
               default_value, default_value_t = expr, bare default_value_t, doc comments; sub-commands to depth 3; groups of 2-4 members with hidden ones and an optional RawCommand catch-all) are written out as Rust source and compiled with the repository's macros (120 declarations quick, 1600 thorough). \
               Inputs: per declaration, lines built from its model: options given/omitted in long/short spelling, clusters, interleaving with positionals, `--` followed by dash-values, values from per-type pools of valid/boundary/invalid spellings, one positional too many/too few, unknown options, unknown (sub)commands, random quoting. \
               Oracle: an interpreter of the declaration model (first scan error wins, then the first missing required argument by its usage name); Ok: Debug rendering equal (value conversion by the field type's own FromStr in the harness); Err: same ParseError variant and payload, exactly one `error:` line containing the payload, \
               and the closure given to the derived `processor()` wrapper is reached exactly when parsing succeeds, with the same value. \
               Non-trivial = the line exercises at least two of {cluster, option/positional interleaving, default, Option field, sub-command, group fall-through, error}; distinct by (declaration, tokens).",
        assumptions: &[
            "left open and skipped (counted): an option still waiting for its value when another option or the end of the line arrives, the same option twice, `--` before a sub-command name, an unknown nested sub-command inside a group member",
            "`--` between an option and its value only ends option parsing: the option still takes the next plain value (the only way to give it a value that starts with a dash)",
            "when a missing positional is declared before a missing option either of the two names is accepted as 'the first missing required argument'",
            "attribute combinations outside the grammar (custom FromArgument types, skip_* service attributes, more than one lifetime) are not covered",
            "tokenisation of the typed line is C07's business: the oracle interprets the intended tokens",
        ],
        ..DEFAULT
    }
}

fn prepare(tier: Tier, seed: u64, dir: &Path) -> Result<Value, PrepError> {
    declcommon::prepare("C09", tier, seed, dir)
}

fn features(d: &Decl, tokens: &[String], exp: &Expect) -> usize {
    let args = ref_classify(&tokens[1..]);
    let mut n = 0;
    // cluster
    if tokens[1..].iter().any(|t| t.starts_with('-') && !t.starts_with("--") && t.chars().count() > 2) {
        n += 1;
    }
    // interleaving: a value after an option after a value
    let mut seen_val = false;
    let mut seen_opt_after_val = false;
    for a in &args {
        match a {
            RArg::Value(_) => {
                if seen_opt_after_val {
                    n += 1;
                    break;
                }
                seen_val = true;
            }
            RArg::Long(_) | RArg::Short(_) => {
                if seen_val {
                    seen_opt_after_val = true;
                }
            }
            _ => {}
        }
    }
    if let Expect::Ok(s) = exp {
        if s.contains("None") || s.contains("Some(") {
            n += 1;
        }
        if s.matches('(').count() + s.matches('{').count() >= 2 {
            n += 1; // nested: sub-command or group wrapper around a struct
        }
    }
    if matches!(exp, Expect::Err(_)) {
        n += 1;
    }
    if d.grouped && d.roots.first().map(|r| r.enum_id != "RAW" && !d.enums[&r.enum_id].variants.iter().any(|v| v.name == tokens[0])).unwrap_or(false) {
        n += 1; // fell through at least one group member
    }
    // a default was applied
    let any_default = d.enums.values().any(|e| e.variants.iter().any(|v| v.fields.iter().any(|f| f.default.is_some())));
    if any_default && matches!(exp, Expect::Ok(_)) {
        n += 1;
    }
    n
}

fn payload_of(e: &PErr) -> Vec<String> {
    match e {
        PErr::MissingRequiredArgument(n) => vec![n.clone()],
        PErr::ParseValueError(v, t) => vec![v.clone(), t.replace("&'a str", "")],
        PErr::UnexpectedArgument(v) => vec![v.clone()],
        PErr::UnexpectedLongOption(n) => vec![format!("--{}", n)],
        PErr::UnexpectedShortOption(c) => vec![format!("-{}", c)],
        PErr::UnknownCommand => vec!["unknown command".into()],
        PErr::Other => vec![],
    }
}

pub fn judge(d: &Decl, c: &LineCase, reply: &Value) -> Result<Option<Expect>, (String, String)> {
    judge_opts(d, c, reply, true)
}

/// `help_on = false`: the crate was built without the help feature, so no line is a help request
pub fn judge_opts(d: &Decl, c: &LineCase, reply: &Value, help_on: bool) -> Result<Option<Expect>, (String, String)> {
    let what = format!(
        "declaration d{} line {:?}{}",
        d.id,
        c.line,
        ["", " (submitted once, recalled with Up, Enter again)", " (second half typed first, first half inserted in front of it)", " (a stray character typed and erased in the middle)"][reply["route"].as_u64().unwrap_or(0) as usize % 4]
    );
    if let Some(p) = reply.get("panic").and_then(|p| p.as_str()) {
        return Err((format!("{}: no panic", what), p.to_string()));
    }
    if let Some(e) = reply.get("error").and_then(|p| p.as_str()) {
        return Err((format!("{}: Ok (working sink)", what), e.to_string()));
    }
    if help_on && is_help_request(&c.tokens) != Some(false) {
        return Ok(None); // C12's domain
    }
    let exp = ref_parse(d, &c.tokens[0], &c.tokens[1..]);
    if let Expect::Unspec(_) = exp {
        return Ok(Some(exp));
    }
    if reply["typed_ok"].as_bool() != Some(true) {
        return Ok(None);
    }
    let calls = reply["calls"].as_array().cloned().unwrap_or_default();
    if calls.len() != 1 {
        return Err((format!("{}: the command processor is invoked exactly once", what), format!("{} invocations", calls.len())));
    }
    let typed = &calls[0]["typed"];
    let out = reply["out"].as_str().unwrap_or("");
    let via = &reply["via_processor"];
    match &exp {
        Expect::Ok(s) => {
            if typed["ok"].as_str() != Some(s.as_str()) {
                return Err((format!("{}: parses to {}", what, s), format!("{}", typed)));
            }
            if out != "\r\n$ " {
                return Err((format!("{}: no output besides the new prompt", what), format!("{:?}", out)));
            }
            if !via.is_null() && (via["closure"].as_str() != Some(s.as_str()) || via["out"].as_str() != Some(out)) {
                return Err((format!("{}: the closure given to processor() receives {} and the output is the same", what, s), format!("{}", via)));
            }
        }
        Expect::Raw(prefix) => {
            if !typed["ok"].as_str().map(|t| t.starts_with(prefix.as_str())).unwrap_or(false) {
                return Err((format!("{}: taken by the catch-all member as {}..", what, prefix), format!("{}", typed)));
            }
        }
        Expect::Err(allowed) => {
            let got: Option<PErr> = serde_json::from_value(typed["err"].clone()).ok();
            let Some(got) = got else {
                return Err((format!("{}: rejected with {:?}", what, allowed), format!("{}", typed)));
            };
            if !allowed.contains(&got) {
                return Err((format!("{}: rejected with {}", what, allowed.iter().map(|e| format!("{:?}", e)).collect::<Vec<_>>().join(" or ")), format!("{:?}", got)));
            }
            // exactly one error line, carrying the payload
            let body = out.strip_prefix("\r\n").and_then(|o| o.strip_suffix("$ "));
            let ok = match body {
                Some(b) => {
                    let lines: Vec<&str> = b.split("\r\n").collect();
                    lines.len() == 2 && lines[1].is_empty() && lines[0].starts_with("error: ") && payload_of(&got).iter().all(|p| lines[0].contains(p.as_str()))
                }
                None => false,
            };
            if !ok {
                return Err((format!("{}: a single `error:` line mentioning {:?}, then the prompt", what, payload_of(&got)), format!("{:?}", out)));
            }
            if !via.is_null() && (!via["closure"].is_null() || via["out"].as_str() != Some(out)) {
                return Err((format!("{}: the closure given to processor() is not reached and the same error line is printed", what), format!("{}", via)));
            }
        }
        Expect::Unspec(_) => {}
    }
    Ok(Some(exp))
}

fn run_shard(ctx: &ShardCtx) {
    let set = declcommon::worker_set("C09", ctx);
    let servers = Servers::new();
    let lines_per_decl = ctx.tier.pick(1500u64, 3000u64);
    let mut gi = 0u64;
    for (bin, decls) in &set.crates {
        for d in decls {
            gi += 1;
            if !ctx.mine(gi) || ctx.failed() {
                continue;
            }
            ctx.class("declarations exercised");
            if d.grouped {
                ctx.class("declarations:grouped");
            }
            let strat = line_strategy(tokens_strategy(d));
            let sub = "derived-parse";
            // each declaration gets its own proptest run (budget is per declaration, not split)
            let total = lines_per_decl * ctx.nshards as u64;
            ctx.run_prop(
                &format!("{}-{}", sub, gi),
                total,
                strat,
                |c| json!({"decl": d, "tokens": c.tokens, "line": c.line}),
                |c| {
                    let reply = servers.ask(bin, &json!({"d": d.id, "kind": "line", "line": c.line})).map_err(|e| Failure::new(sub, Value::Null, "the process survives the line", e))?;
                    match judge(d, c, &reply) {
                        Ok(Some(Expect::Unspec(_))) => {
                            ctx.skipped();
                            Ok(())
                        }
                        Ok(Some(exp)) => {
                            match &exp {
                                Expect::Ok(_) => ctx.class("lines:accepted"),
                                Expect::Err(_) => ctx.class("lines:rejected"),
                                _ => {}
                            }
                            if features(d, &c.tokens, &exp) >= 2 {
                                ctx.nontrivial(fingerprint(&(gi, &c.tokens)), || json!({"declaration": format!("{}#d{}", bin.rsplit('/').next().unwrap_or(""), d.id), "line": c.line, "expected": format!("{:?}", exp)}));
                            }
                            Ok(())
                        }
                        Ok(None) => Ok(()),
                        Err((e, o)) => Err(Failure::new(sub, Value::Null, e, o)),
                    }
                },
            );
        }
    }
    // the failure's check name must be replayable
    if let Some(f) = ctx.res.borrow_mut().failure.as_mut() {
        f.check = "derived-parse".into();
    }
}

fn replay(_sub: &str, case: &Value) -> Verdict {
    let fail = |e: String, o: String| Failure::new("derived-parse", case.clone(), e, o);
    let mut d: Decl = serde_json::from_value(case["decl"].clone()).map_err(|e| fail("a declaration model in the replay file".into(), e.to_string()))?;
    d.id = 0;
    let c = LineCase {
        tokens: case["tokens"].as_array().map(|a| a.iter().map(|s| s.as_str().unwrap_or("").to_string()).collect()).unwrap_or_default(),
        line: case["line"].as_str().unwrap_or("").to_string(),
    };
    let servers = Servers::new();
    let reply = servers.ask(&declcommon::replay_bin("C09"), &json!({"d": 0, "kind": "line", "line": c.line})).map_err(|e| fail("the process survives the line".into(), e))?;
    judge(&d, &c, &reply).map(|_| ()).map_err(|(e, o)| fail(e, o))
}
