//! C06 — what the terminal shows is the prompt plus the edited line, cursor included.

use std::path::Path;

use serde_json::Value;
use vmodel::engine::{ShardCtx, Tier, Verdict};

use super::{
    fuzzdrv,
    lockstep::{replay_lockstep, run_lockstep_shard, Flags, GenOpts},
    Check, PrepError, DEFAULT,
};

const FLAGS: Flags = Flags {
    dispatch: false,
    editor: false,
    screen: true,
    framing: false,
    flush: false,
    help_on: true,
    complete: false,
};

pub fn check() -> Check {
    Check {
        id: "C06",
        run_shard,
        prepare: Some(prepare),
        replay: |sub, case| -> Verdict {
            if sub == super::shapes::SUB {
                return super::shapes::replay(case, vmodel::sinkkinds::Diff::Display);
            }
            replay_lockstep(sub, case, FLAGS)
        },
        floor_quick: 2_000,
        floor_thorough: 50_000,
        rule: "Random sessions as in C01 plus Cli::write (0-5 calls of write_str / writeln_str / uwrite! / write!, texts of printable characters, LF, CR LF, empty) and Cli::set_prompt from {empty, '$ ', '#', one with 3- and 4-byte characters, Cyrillic} at arbitrary positions, \
               handler-side prompt changes and output; all sink bytes are fed to an ECMA-48 terminal emulator in lock-step. After every API call that returns Ok the emulator's current row (trailing blanks trimmed) must equal prompt + line (hook) and its cursor column chars(prompt) + cursor. \
               Non-trivial = a write, prompt change, recall, completion or rejected character executed with the cursor strictly inside a non-empty line; distinct by (line, cursor, op). Evaluations count every API call (input byte, application write, prompt change) that was followed by the oracle, plus one per session; a coverage-guided campaign (libFuzzer + ASan, 16 processes, same oracle inside the target) searches the same session space and what it keeps is re-run and classified here. \
               API shapes (sub `api-shapes`): the same session strategies on a zero-sized / 512-byte / `&mut` sink, with `[u8; N]` and `&mut [u8]` buffers, builder calls in other orders and `Cli::new`; the terminal emulator fed with each shape's bytes must end up showing what it shows for the shape the lock-step sessions use.",
        assumptions: &[
            "characters have display width 1 and the line does not wrap (as in the property's quantifier)",
            "emulator repertoire: printable, CR, LF, BS, CSI C/D/P/@/K/G with numeric parameters; any other sequence ends the case as inconclusive (exit 2), never as a violation",
        ],
        ..DEFAULT
    }
}

const SETS: &[&str] = &["raw", "raw", "enum", "group"];

fn opts(tier: Tier) -> GenOpts {
    GenOpts {
        writes: 6,
        set_prompts: 5,
        scripts: true,
        max_ops: tier.pick(40, 120),
        quotes: true,
    }
}

fn prepare(tier: Tier, seed: u64, _dir: &Path) -> Result<Value, PrepError> {
    fuzzdrv::prepare_lockstep("C06", "screen", "screen", opts(tier), SETS, tier, seed)
}

fn run_shard(ctx: &ShardCtx) {
    run_lockstep_shard(ctx, "screen", "C06", ctx.tier.pick(1_500_000, 15_000_000), opts(ctx.tier), SETS, FLAGS);
    // what the coverage-guided campaign (prepare) kept, re-run and classified in the plain harness build
    fuzzdrv::replay_lock_corpus(ctx, "C06", "screen", FLAGS);
    // other shapes of the API (sink types, `[u8; N]` / `&mut [u8]` buffers, builder call orders, Cli::new): a terminal shows the same
    super::shapes::stage(ctx, ctx.tier.pick(100_000, 1_500_000), opts(ctx.tier), SETS, vmodel::sinkkinds::Diff::Display);
}
