//! C15 — everything written has been flushed when a call returns.

use vmodel::engine::{ShardCtx, Verdict};

use super::{
    lockstep::{replay_lockstep, run_lockstep_shard, Flags, GenOpts},
    Check, DEFAULT,
};

const FLAGS: Flags = Flags {
    dispatch: false,
    editor: false,
    screen: false,
    framing: false,
    flush: true,
    help_on: true,
};

pub fn check() -> Check {
    Check {
        id: "C15",
        run_shard,
        replay: |sub, case| -> Verdict { replay_lockstep(sub, case, FLAGS) },
        floor_quick: 2_000,
        floor_thorough: 20_000,
        rule: "Random sessions as in C01/C06/C13 (typing, editing, recall, completion, Enter with handler output, help, parse errors of derived commands, Cli::write, set_prompt, construction through the builder and through Cli::new) on a recording sink that counts bytes written since the last flush, with short writes on and off. \
               After every API call that returns Ok the counter must be 0. Non-trivial = the call produced at least two sink writes; distinct by (kind of call, bytes written).",
        assumptions: &["the sink never returns Ok(0) for a non-empty buffer (that would violate the embedded_io::Write contract)"],
        ..DEFAULT
    }
}

fn run_shard(ctx: &ShardCtx) {
    let opts = GenOpts {
        writes: 8,
        set_prompts: 5,
        scripts: true,
        max_ops: ctx.tier.pick(40, 100),
        quotes: true,
    };
    run_lockstep_shard(ctx, "flush", "C15", ctx.tier.pick(1_500_000, 15_000_000), opts, &["raw", "enum", "group"], FLAGS);
}
