//! C15 — everything written has been flushed when a call returns.

use std::path::Path;

use proptest::prelude::*;
use serde_json::Value;
use vmodel::engine::{fingerprint, Failure, ShardCtx, Tier, Verdict};

use super::{
    fuzzdrv,
    lockstep::{replay_lockstep, run_lockstep_shard, Flags, GenOpts},
    Check, PrepError, DEFAULT,
};

const FLAGS: Flags = Flags {
    dispatch: false,
    editor: false,
    screen: false,
    framing: false,
    flush: true,
    help_on: true,
    complete: false,
};

pub fn check() -> Check {
    Check {
        id: "C15",
        run_shard,
        prepare: Some(prepare),
        replay: |sub, case| -> Verdict {
            if sub == "sink-kinds" {
                let c = vmodel::lockstep::case_from_json(case).map_err(|e| Failure::new(sub, case.clone(), "a well-formed case", e))?;
                return vmodel::sinkkinds::run(&c).map(|_| ()).map_err(|(e, o)| Failure::new(sub, case.clone(), e, o));
            }
            replay_lockstep(sub, case, FLAGS)
        },
        floor_quick: 2_000,
        floor_thorough: 20_000,
        rule: "Random sessions as in C01/C06/C13 (typing, editing, recall, completion, Enter with handler output, help, parse errors of derived commands, Cli::write, set_prompt, construction through the builder and through Cli::new) on a recording sink that counts bytes written since the last flush, with short writes on and off. \
               After every API call that returns Ok the counter must be 0. Non-trivial = the call produced at least two sink writes; distinct by (kind of call, bytes written). Evaluations count every API call (input byte, application write, prompt change) that was followed by the oracle, plus one per session; a coverage-guided campaign (libFuzzer + ASan, 16 processes, same oracle inside the target) searches the same session space and what it keeps is re-run and classified here. \
               Sink kinds: the same session strategies on a zero-sized sink (`struct Uart;`, state in a thread-local), a 512-byte over-aligned sink and `&mut` of a sink, with the same invariant after construction and after every call (sub `sink-kinds`).",
        assumptions: &["the sink never returns Ok(0) for a non-empty buffer (that would violate the embedded_io::Write contract)"],
        ..DEFAULT
    }
}

const SETS: &[&str] = &["raw", "enum", "group"];

fn opts(tier: Tier) -> GenOpts {
    GenOpts {
        writes: 8,
        set_prompts: 5,
        scripts: true,
        max_ops: tier.pick(40, 100),
        quotes: true,
    }
}

fn prepare(tier: Tier, seed: u64, _dir: &Path) -> Result<Value, PrepError> {
    fuzzdrv::prepare_lockstep("C15", "flush", "flush", opts(tier), SETS, tier, seed)
}

fn run_shard(ctx: &ShardCtx) {
    run_lockstep_shard(ctx, "flush", "C15", ctx.tier.pick(1_500_000, 15_000_000), opts(ctx.tier), SETS, FLAGS);
    // what the coverage-guided campaign (prepare) kept, re-run and classified in the plain harness build
    fuzzdrv::replay_lock_corpus(ctx, "C15", "flush", FLAGS);
    // the same sessions on sinks of other types (zero-sized, large, a reference)
    let n = std::cell::RefCell::new(0u64);
    let strat = prop_oneof![4 => vmodel::lockstep::case_strategy(opts(ctx.tier), SETS), 1 => vmodel::lockstep::tab_session_strategy(true)];
    ctx.run_prop("sink-kinds", ctx.tier.pick(150_000, 2_000_000), strat, vmodel::lockstep::case_json, |c| match vmodel::sinkkinds::run(c) {
        Ok(nt) => {
            if nt && !*ctx.stopped.borrow() {
                *n.borrow_mut() += 1;
                ctx.nontrivial(fingerprint(&("sink-kinds", &c.cfg, &c.ops)), || vmodel::lockstep::case_json(c));
            }
            Ok(())
        }
        Err((e, o)) => Err(Failure::new("sink-kinds", vmodel::lockstep::case_json(c), e, o)),
    });
    ctx.class_n("sink kinds: sessions with a dispatch", *n.borrow());
}
