//! C15 — everything written has been flushed when a call returns.

use std::path::Path;

use serde_json::Value;
use vmodel::engine::{ShardCtx, Tier, Verdict};

use super::{
    fuzzdrv,
    lockstep::{replay_lockstep, run_lockstep_shard, Flags, GenOpts},
    Check, PrepError, DEFAULT,
};

const FLAGS: Flags = Flags {
    dispatch: false,
    editor: false,
    screen: false,
    framing: false,
    flush: true,
    help_on: true,
    complete: false,
};

pub fn check() -> Check {
    Check {
        id: "C15",
        run_shard,
        prepare: Some(prepare),
        replay: |sub, case| -> Verdict {
            if sub == super::shapes::SUB {
                return super::shapes::replay(case, vmodel::sinkkinds::Diff::Flush);
            }
            replay_lockstep(sub, case, FLAGS)
        },
        floor_quick: 2_000,
        floor_thorough: 20_000,
        rule: "Random sessions as in C01/C06/C13 (typing, editing, recall, completion, Enter with handler output, help, parse errors of derived commands, Cli::write, set_prompt, construction through the builder and through Cli::new) on a recording sink that counts bytes written since the last flush, with short writes on and off. \
               After every API call that returns Ok the counter must be 0. Non-trivial = the call produced at least two sink writes; distinct by (kind of call, bytes written). Evaluations count every API call (input byte, application write, prompt change) that was followed by the oracle, plus one per session; a coverage-guided campaign (libFuzzer + ASan, 16 processes, same oracle inside the target) searches the same session space and what it keeps is re-run and classified here. \
               Sink kinds: the same session strategies on a zero-sized sink (`struct Uart;`, state in a thread-local), a 512-byte over-aligned sink and `&mut` of a sink, with the same invariant after construction and after every call (sub `api-shapes`; also `[u8; N]`, `&mut [u8]` and the builder's default buffers, other builder call orders).",
        assumptions: &["the sink never returns Ok(0) for a non-empty buffer (that would violate the embedded_io::Write contract)"],
        ..DEFAULT
    }
}

const SETS: &[&str] = &["raw", "enum", "group"];

fn opts(tier: Tier) -> GenOpts {
    GenOpts {
        writes: 8,
        set_prompts: 5,
        scripts: true,
        max_ops: tier.pick(40, 100),
        quotes: true,
    }
}

fn prepare(tier: Tier, seed: u64, _dir: &Path) -> Result<Value, PrepError> {
    fuzzdrv::prepare_lockstep("C15", "flush", "flush", opts(tier), SETS, tier, seed)
}

fn run_shard(ctx: &ShardCtx) {
    run_lockstep_shard(ctx, "flush", "C15", ctx.tier.pick(1_500_000, 15_000_000), opts(ctx.tier), SETS, FLAGS);
    // what the coverage-guided campaign (prepare) kept, re-run and classified in the plain harness build
    fuzzdrv::replay_lock_corpus(ctx, "C15", "flush", FLAGS);
    // the same sessions on other shapes of the API (sink types, buffer kinds, builder orders): flushed on every one of them
    super::shapes::stage(ctx, ctx.tier.pick(150_000, 2_000_000), opts(ctx.tier), SETS, vmodel::sinkkinds::Diff::Flush);
}
