//! C15 — everything written has been flushed when a call returns.

use std::path::Path;

use serde_json::Value;
use vmodel::engine::{ShardCtx, Tier, Verdict};

use super::{
    fuzzdrv,
    lockstep::{replay_lockstep, run_lockstep_shard, Flags, GenOpts},
    Check, PrepError, DEFAULT,
};

const FLAGS: Flags = Flags {
    dispatch: false,
    editor: false,
    screen: false,
    framing: false,
    flush: true,
    help_on: true,
    complete: false,
};

pub fn check() -> Check {
    Check {
        id: "C15",
        run_shard,
        prepare: Some(prepare),
        replay: |sub, case| -> Verdict {
            if sub == super::shapes::SUB {
                return super::shapes::replay(case, vmodel::sinkkinds::Diff::Flush);
            }
            if sub == "flush-after-fault" {
                return replay_after_fault(case);
            }
            replay_lockstep(sub, case, FLAGS)
        },
        floor_quick: 2_000,
        floor_thorough: 20_000,
        rule: "Random sessions as in C01/C06/C13 (typing, editing, recall, completion, Enter with handler output, help, parse errors of derived commands, Cli::write, set_prompt, construction through the builder and through Cli::new) on a recording sink that counts bytes written since the last flush, with short writes on and off. \
               After every API call that returns Ok the counter must be 0. Non-trivial = the call produced at least two sink writes; distinct by (kind of call, bytes written). Evaluations count every API call (input byte, application write, prompt change) that was followed by the oracle, plus one per session; a coverage-guided campaign (libFuzzer + ASan, 16 processes, same oracle inside the target) searches the same session space and what it keeps is re-run and classified here. \
               Sink kinds: the same session strategies on a zero-sized sink (`struct Uart;`, state in a thread-local), a 512-byte over-aligned sink and `&mut` of a sink, with the same invariant after construction and after every call (sub `api-shapes`; also `[u8; N]`, `&mut [u8]` and the builder's default buffers, other builder call orders). \
               After a failure: the same sessions with one sink call failing (once, or until the failing call has returned); every later call that returns Ok and wrote something must have flushed it - what a failed call left behind is owed by nobody, what a later call writes on its behalf is (sub `flush-after-fault`).",
        assumptions: &["the sink never returns Ok(0) for a non-empty buffer (that would violate the embedded_io::Write contract)"],
        ..DEFAULT
    }
}

const SETS: &[&str] = &["raw", "enum", "group"];

fn opts(tier: Tier) -> GenOpts {
    GenOpts {
        writes: 8,
        set_prompts: 5,
        scripts: true,
        max_ops: tier.pick(40, 100),
        quotes: true,
    }
}

fn prepare(tier: Tier, seed: u64, _dir: &Path) -> Result<Value, PrepError> {
    fuzzdrv::prepare_lockstep("C15", "flush", "flush", opts(tier), SETS, tier, seed)
}

fn run_shard(ctx: &ShardCtx) {
    run_lockstep_shard(ctx, "flush", "C15", ctx.tier.pick(1_500_000, 15_000_000), opts(ctx.tier), SETS, FLAGS);
    // what the coverage-guided campaign (prepare) kept, re-run and classified in the plain harness build
    fuzzdrv::replay_lock_corpus(ctx, "C15", "flush", FLAGS);
    // the same sessions on other shapes of the API (sink types, buffer kinds, builder orders): flushed on every one of them
    super::shapes::stage(ctx, ctx.tier.pick(150_000, 2_000_000), opts(ctx.tier), SETS, vmodel::sinkkinds::Diff::Flush);
    // sessions in which one sink call fails: the calls that succeed afterwards still owe a flush for everything they write
    {
        use proptest::prelude::*;
        let strat = (vmodel::lockstep::case_strategy(opts(ctx.tier), SETS), any::<u16>(), any::<bool>(), 0u8..18);
        let n = std::cell::RefCell::new(0u64);
        ctx.run_prop(
            "flush-after-fault",
            ctx.tier.pick(400_000, 4_000_000),
            strat,
            |(c, k, p, kd)| after_fault_json(c, *k, *p, *kd),
            |(c, k, p, kd)| match vmodel::with_set!(c.cfg.set.as_str(), after_fault(c, *k, *p, *kd)) {
                Ok(nt) => {
                    if nt && !*ctx.stopped.borrow() {
                        *n.borrow_mut() += 1;
                    }
                    Ok(())
                }
                Err((e, o)) => Err(vmodel::engine::Failure::new("flush-after-fault", Value::Null, e, o)),
            },
        );
        ctx.class_n("after a sink failure: sessions with output from later calls", *n.borrow());
    }
}

fn after_fault_json(c: &vmodel::lockstep::Case, k: u16, permanent: bool, kind: u8) -> Value {
    serde_json::json!({"cfg": c.cfg, "ops": c.ops, "fault_at": k, "permanent": permanent, "kind": kind})
}

/// One sink call fails (`k` scaled to the number of sink calls of the clean run; `permanent`: every call until the failing
/// API call has returned). Nothing is asked of the failing call. Every later API call that returns Ok and wrote bytes must have
/// flushed during the call, with nothing written after its last flush.
fn after_fault<S: vmodel::session::CmdSet>(c: &vmodel::lockstep::Case, k: u16, permanent: bool, kind: u8) -> Result<bool, (String, String)> {
    use super::c14::{steps_of, Step};
    use vmodel::session::Sess;
    use vmodel::sink::Fault;
    let steps = steps_of(&c.cfg, &c.ops);
    let run = |s: &mut Sess<S>, st: &Step| match st {
        Step::Byte(b, _) => s.byte(*b),
        Step::Write(calls, _) => s.write(calls),
        Step::SetPrompt(p, _) => s.set_prompt(*p),
    };
    // clean run: number of sink calls
    let total = {
        let (s, st) = Sess::<S>::new(&c.cfg, None);
        let Ok(mut s) = s else { return Ok(false) };
        for stp in &steps {
            if run(&mut s, stp).is_err() {
                return Ok(false);
            }
        }
        let n = st.borrow().calls;
        n
    };
    if total == 0 {
        return Ok(false);
    }
    let call = (k as usize * total) >> 16;
    let (s, st) = Sess::<S>::new(&c.cfg, Some(Fault { call, permanent, outage: 0, kind }));
    let Ok(mut s) = s else { return Ok(false) };
    let mut failed = false;
    let mut later_output = false;
    for (i, stp) in steps.iter().enumerate() {
        let (c0, w0, len0) = {
            let b = st.borrow();
            (b.calls, b.write_calls, b.bytes.len())
        };
        let r = run(&mut s, stp);
        if r.is_err() {
            failed = true;
            st.borrow_mut().repair();
            continue;
        }
        if !failed {
            continue;
        }
        let b = st.borrow();
        let wrote = b.bytes.len() - len0;
        let flushes = (b.calls - c0) - (b.write_calls - w0);
        if wrote > 0 {
            later_output = true;
            if flushes == 0 || b.unflushed != 0 {
                return Err((
                    format!("step #{} ({:?}) after the sink failure at call {}: returns Ok, so the {} bytes it wrote have been flushed", i, stp, call, wrote),
                    format!("{} flush call(s) during the call, {} bytes written after the last flush", flushes, b.unflushed),
                ));
            }
        }
    }
    Ok(failed && later_output)
}

fn replay_after_fault(case: &Value) -> Verdict {
    let fail = |e: String, o: String| vmodel::engine::Failure::new("flush-after-fault", case.clone(), e, o);
    let c = vmodel::lockstep::case_from_json(case).map_err(|e| fail("a well-formed case".into(), e))?;
    let k = case["fault_at"].as_u64().unwrap_or(0) as u16;
    let p = case["permanent"].as_bool().unwrap_or(false);
    let kd = case["kind"].as_u64().unwrap_or(0) as u8;
    vmodel::with_set!(c.cfg.set.as_str(), after_fault(&c, k, p, kd)).map(|_| ()).map_err(|(e, o)| fail(e, o))
}
