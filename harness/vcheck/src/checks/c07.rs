//! C07 — tokenisation follows the documented quoting rules and can carry any string.

use proptest::prelude::*;
use serde_json::{json, Value};
use vmodel::{
    engine::{fingerprint, Failure, ShardCtx, Verdict},
    refs::{quote_token, ref_tokens},
    session::{Config, LArg, RawSet, Sess},
};

use super::{
    common::{lossy_list, pick, real_tokens},
    Check, DEFAULT,
};

pub fn check() -> Check {
    Check {
        id: "C07",
        run_shard,
        replay,
        floor_quick: 100_000,
        floor_thorough: 1_000_000,
        rule: "G1: every line of length <= 10 (quick) / 11 (thorough) over {a, space, quote, backslash, dash, e-acute} tokenised by Tokens::new and compared with a reference grammar written from the property; \
               G2: random lines up to 200 chars over 1-4-byte characters; G3: round trip - random lists of 0-6 arbitrary NUL-free strings rendered fully or minimally quoted, with or without blanks after closing quotes, must tokenise back to exactly the list; \
               G4: the same lists typed through a whole Cli and read back by the handler. \
               Non-trivial = the line contains an empty quoted token, an escape, or a quote adjacent to another token; distinct by line content.",
        assumptions: &[
            "inside quotes a backslash followed by anything but quote or backslash, and a dangling final backslash, are left open by the property: such lines are checked for well-formed output only (skipped_unspecified)",
            "lines contain no NUL (the property quantifies over lines without NUL)",
        ],
        ..DEFAULT
    }
}

fn nontrivial(line: &str) -> bool {
    let b = line.as_bytes();
    if line.contains("\"\"") || line.contains('\\') {
        return true;
    }
    for i in 0..b.len() {
        if b[i] == b'"' {
            let prev = if i > 0 { b[i - 1] } else { b' ' };
            let next = if i + 1 < b.len() { b[i + 1] } else { b' ' };
            if prev != b' ' || next != b' ' {
                return true;
            }
        }
    }
    false
}

/// Ok(true) = compared with the reference, Ok(false) = unspecified zone (validity only)
fn compare_line(line: &str) -> Result<bool, (String, String)> {
    let (got, empty) = real_tokens(line);
    for t in &got {
        if core::str::from_utf8(t).is_err() {
            return Err(("every token is well-formed UTF-8".into(), format!("token bytes {:02x?}", t)));
        }
    }
    if empty != got.is_empty() {
        return Err((
            "is_empty() exactly when the iterator yields no token".into(),
            format!("is_empty() = {}, {} tokens", empty, got.len()),
        ));
    }
    match ref_tokens(line) {
        None => Ok(false),
        Some(exp) => {
            let got_s = lossy_list(&got);
            if got_s != exp {
                return Err((format!("{:?}", exp), format!("{:?}", got_s)));
            }
            Ok(true)
        }
    }
}

fn check_line(sub: &str, line: &str) -> Verdict {
    match compare_line(line) {
        Ok(_) => Ok(()),
        Err((e, o)) => Err(Failure::new(sub, json!({"line": line}), format!("tokens of {:?}: {}", line, e), o)),
    }
}

#[derive(Clone, Debug)]
pub struct Rendering {
    pub list: Vec<String>,
    /// per token: force quotes
    pub force: Vec<bool>,
    /// per token: separate from the previous token with n blanks (0 allowed only after a closing quote)
    pub gaps: Vec<u8>,
    pub lead: u8,
    pub trail: u8,
}

impl Rendering {
    pub fn render(&self) -> String {
        let mut s = " ".repeat(self.lead as usize);
        let mut prev_quoted = false;
        for (i, t) in self.list.iter().enumerate() {
            let q = quote_token(t, self.force[i]);
            if i > 0 {
                let mut gap = self.gaps[i] as usize;
                if gap == 0 && !prev_quoted {
                    gap = 1;
                }
                s.push_str(&" ".repeat(gap));
            }
            prev_quoted = q.starts_with('"');
            s.push_str(&q);
        }
        // trailing blanks are harmless unless the last token is an unterminated... (never: we close quotes)
        s.push_str(&" ".repeat(self.trail as usize));
        s
    }
}

fn token_strategy(typeable: bool) -> impl Strategy<Value = String> {
    let table: Vec<char> = vec!['a', 'b', ' ', '"', '\\', '-', 'é', 'Ж', '₿', '𝄞', 'x', '\''];
    let ch = prop_oneof![
        8 => any::<u16>().prop_map(move |s| pick(&table, s)),
        1 => any::<char>().prop_map(move |c| if c == '\0' || (typeable && (c < ' ' || c == '\x7f')) { 'Ω' } else { c }),
    ];
    proptest::collection::vec(ch, 0..8).prop_map(|v| v.into_iter().collect())
}

fn rendering_strategy(typeable: bool) -> impl Strategy<Value = Rendering> {
    proptest::collection::vec((token_strategy(typeable), any::<bool>(), 0u8..3), 0..=6).prop_flat_map(|items| {
        (Just(items), 0u8..3, 0u8..3).prop_map(|(items, lead, trail)| Rendering {
            list: items.iter().map(|i| i.0.clone()).collect(),
            force: items.iter().map(|i| i.1).collect(),
            gaps: items.iter().map(|i| i.2).collect(),
            lead,
            trail,
        })
    })
}

fn check_roundtrip(r: &Rendering) -> Verdict {
    let line = r.render();
    let (got, _) = real_tokens(&line);
    let got_s = lossy_list(&got);
    if got_s != r.list {
        return Err(Failure::new(
            "roundtrip",
            json!({"list": r.list, "line": line}),
            format!("tokenising {:?} returns the list {:?}", line, r.list),
            format!("{:?}", got_s),
        ));
    }
    Ok(())
}

fn check_roundtrip_cli(list: &[String], line: &str) -> Verdict {
    let case = || json!({"list": list, "line": line});
    let cfg = Config {
        cmd_buf: 2048,
        hist_buf: 0,
        ..Config::default()
    };
    let (s, _) = Sess::<RawSet>::new(&cfg, None);
    let mut s = s.map_err(|e| Failure::new("roundtrip-cli", case(), "construction succeeds", format!("{:?}", e)))?;
    let typed = format!("x -- {}", line);
    for &b in typed.as_bytes() {
        s.byte(b).map_err(|e| Failure::new("roundtrip-cli", case(), "Ok", format!("{:?}", e)))?;
    }
    s.byte(b'\r').map_err(|e| Failure::new("roundtrip-cli", case(), "Ok", format!("{:?}", e)))?;
    let log = &s.proc_.log;
    let mut exp = vec![LArg::DoubleDash];
    exp.extend(list.iter().map(|t| LArg::Value(t.as_bytes().to_vec())));
    if log.len() != 1 || log[0].name != b"x" || log[0].args != exp {
        return Err(Failure::new(
            "roundtrip-cli",
            case(),
            format!("handler invoked once with name x and values {:?} after `--`", list),
            format!("{:?}", log),
        ));
    }
    Ok(())
}

fn run_shard(ctx: &ShardCtx) {
    // G1
    let syms: [&str; 6] = ["a", " ", "\"", "\\", "-", "é"];
    let depth = ctx.tier.pick(10u32, 11u32);
    let mut idx = 0u64;
    'outer: for len in 0..=depth {
        let total = 6u64.pow(len);
        for code in 0..total {
            idx += 1;
            if !ctx.mine(idx) {
                continue;
            }
            let mut line = String::with_capacity(20);
            let mut c = code;
            for _ in 0..len {
                line.push_str(syms[(c % 6) as usize]);
                c /= 6;
            }
            ctx.count_eval();
            match compare_line(&line) {
                Ok(true) => {
                    if nontrivial(&line) {
                        ctx.nontrivial_enum(|| json!({"line": line}));
                    }
                }
                Ok(false) => ctx.skipped(),
                Err((e, o)) => {
                    ctx.fail(Failure::new("tokens-enum", json!({"line": line}), format!("tokens of {:?}: {}", line, e), o));
                    break 'outer;
                }
            }
        }
    }
    ctx.exhaustive(&format!("lines of <= {} symbols over 6", depth), !ctx.failed());
    let enumerated = ctx.res.borrow().evaluations;
    ctx.class_n("enumerated", enumerated);

    // G2
    let table: Vec<char> = vec!['a', 'b', ' ', ' ', '"', '"', '\\', '-', 'é', 'Ж', '₿', '𝄞'];
    let ch = prop_oneof![
        12 => any::<u16>().prop_map(move |s| pick(&table, s)),
        1 => any::<char>().prop_map(|c| if c == '\0' { 'Ω' } else { c }),
    ];
    let strat = proptest::collection::vec(ch, 0..200).prop_map(|v| v.into_iter().collect::<String>());
    ctx.run_prop("tokens-random", ctx.tier.pick(1_000_000, 10_000_000), strat, |l| json!({"line": l}), |line| {
        let r = check_line("tokens-random", line);
        if r.is_ok() {
            if ref_tokens(line).is_none() {
                ctx.skipped();
            } else if nontrivial(line) {
                ctx.class("random:nontrivial");
                ctx.nontrivial(fingerprint(line), || json!({"line": line}));
            }
        }
        r
    });

    // G3
    ctx.run_prop(
        "roundtrip",
        ctx.tier.pick(1_000_000, 10_000_000),
        rendering_strategy(false),
        |r| json!({"list": r.list, "line": r.render()}),
        |r| {
            let v = check_roundtrip(r);
            if v.is_ok() {
                let line = r.render();
                if nontrivial(&line) {
                    ctx.class("roundtrip:nontrivial");
                    ctx.nontrivial(fingerprint(&line), || json!({"list": r.list, "line": line}));
                }
            }
            v
        },
    );

    // G4
    ctx.run_prop(
        "roundtrip-cli",
        ctx.tier.pick(200_000, 2_000_000),
        rendering_strategy(true),
        |r| json!({"list": r.list, "line": r.render()}),
        |r| {
            let line = r.render();
            let v = check_roundtrip_cli(&r.list, &line);
            if v.is_ok() && nontrivial(&line) {
                ctx.class("roundtrip-cli:nontrivial");
                ctx.nontrivial(fingerprint(&("cli", &line)), || json!({"list": r.list, "typed": format!("x -- {}", line)}));
            }
            v
        },
    );
}

fn replay(sub: &str, case: &Value) -> Verdict {
    let line = case["line"].as_str().unwrap_or("").to_string();
    match sub {
        "roundtrip" | "roundtrip-cli" => {
            let list: Vec<String> = case["list"]
                .as_array()
                .map(|a| a.iter().map(|s| s.as_str().unwrap_or("").to_string()).collect())
                .unwrap_or_default();
            if sub == "roundtrip-cli" {
                check_roundtrip_cli(&list, &line)
            } else {
                let (got, _) = real_tokens(&line);
                let got_s = lossy_list(&got);
                if got_s != list {
                    return Err(Failure::new(sub, case.clone(), format!("{:?}", list), format!("{:?}", got_s)));
                }
                Ok(())
            }
        }
        _ => check_line(sub, &line),
    }
}
