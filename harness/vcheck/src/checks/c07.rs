//! C07 — tokenisation follows the documented quoting rules and can carry any string.

use proptest::prelude::*;
use serde_json::{json, Value};
use vmodel::{
    engine::{fingerprint, Failure, ShardCtx, Verdict},
    lockstep::{check_dispatch, expected_dispatch, Dispatch},
    refs::{is_help_request, patterns_match, quote_token, ref_classify, ref_token_patterns, ref_tokens},
    session::{Config, LArg, RawSet, Sess},
};

use super::{
    common::{lossy_list, pick, real_tokens},
    Check, DEFAULT,
};

pub fn check() -> Check {
    Check {
        id: "C07",
        run_shard,
        replay,
        prepare: Some(prepare),
        floor_quick: 100_000,
        floor_thorough: 1_000_000,
        rule: "G1: every line of length <= 10 (quick) / 11 (thorough) over {a, space, quote, backslash, dash, e-acute} tokenised by Tokens::new and compared with a reference grammar written from the property; \
               G2: random lines up to 200 chars over 1-4-byte characters; G3: round trip - random lists of 0-6 arbitrary NUL-free strings rendered fully or minimally quoted, with or without blanks after closing quotes, must tokenise back to exactly the list; \
               G4: the same lists typed through a whole Cli and read back by the handler (after `x --`, or as the whole line: name + classified arguments); renderings may leave the last quote open; \
               G1b: every line of <= 8/9 symbols over {a, space, quote, U+00A0, U+3000} and over {a, space, quote, TAB, U+001F} (Unicode blanks and control characters are ordinary characters); G5: every line of <= 7/8 symbols over the first alphabet typed through the Cli and compared with the reference dispatch; G6: lines with 254..600 (thorough: also 65534..65537) tokens; G7: ten line shapes with blank runs, words, quoted tokens and escape runs of every length 0..300 (thorough 1100), every third also through the Cli; G8: a coverage-guided campaign (libFuzzer + ASan, dictionary of quotes, escapes, option syntax, number words, look-alike dashes and blanks) with the reference grammar and classifier inside the target. \
               Non-trivial = the line contains an empty quoted token, an escape, or a quote adjacent to another token; distinct by line content.",
        assumptions: &[
            "inside quotes a backslash followed by anything but quote or backslash, and a dangling final backslash, are left open by the property: on such lines (skipped_unspecified) the token boundaries and all other characters are still compared, the open escape may yield c or backslash-c (nothing or a backslash at the end of the line)",
            "lines contain no NUL (the property quantifies over lines without NUL)",
        ],
        ..DEFAULT
    }
}

fn nontrivial(line: &str) -> bool {
    let b = line.as_bytes();
    if line.contains("\"\"") || line.contains('\\') {
        return true;
    }
    for i in 0..b.len() {
        if b[i] == b'"' {
            let prev = if i > 0 { b[i - 1] } else { b' ' };
            let next = if i + 1 < b.len() { b[i + 1] } else { b' ' };
            if prev != b' ' || next != b' ' {
                return true;
            }
        }
    }
    false
}

/// Ok(true) = compared with the reference, Ok(false) = unspecified zone (validity only)
fn compare_line(line: &str) -> Result<bool, (String, String)> {
    let (got, empty) = real_tokens(line);
    for t in &got {
        if core::str::from_utf8(t).is_err() {
            return Err(("every token is well-formed UTF-8".into(), format!("token bytes {:02x?}", t)));
        }
    }
    if empty != got.is_empty() {
        return Err((
            "is_empty() exactly when the iterator yields no token".into(),
            format!("is_empty() = {}, {} tokens", empty, got.len()),
        ));
    }
    match ref_tokens(line) {
        None => {
            // the line touches an escape the rules leave open: the token boundaries, the closing quotes and every
            // other character are still fixed; only the open escapes are a choice (c or \c; nothing or \ at the end)
            if let Some(pats) = ref_token_patterns(line) {
                let got_s = lossy_list(&got);
                if !patterns_match(&pats, &got_s) {
                    return Err((format!("tokens matching {:?} (Esc(c) = c or \\c, Dangling = nothing or \\)", pats), format!("{:?}", got_s)));
                }
            }
            Ok(false)
        }
        Some(exp) => {
            let got_s = lossy_list(&got);
            if got_s != exp {
                return Err((format!("{:?}", exp), format!("{:?}", got_s)));
            }
            Ok(true)
        }
    }
}

fn check_line(sub: &str, line: &str) -> Verdict {
    match compare_line(line) {
        Ok(_) => Ok(()),
        Err((e, o)) => Err(Failure::new(sub, json!({"line": line}), format!("tokens of {:?}: {}", line, e), o)),
    }
}

#[derive(Clone, Debug)]
pub struct Rendering {
    pub list: Vec<String>,
    /// per token: force quotes
    pub force: Vec<bool>,
    /// per token: separate from the previous token with n blanks (0 allowed only after a closing quote)
    pub gaps: Vec<u8>,
    pub lead: u8,
    pub trail: u8,
    /// leave the quote of the last token open when it is rendered quoted ("or the end of the line")
    pub open_last: bool,
    /// G4: type the list as the whole line (name + arguments) instead of after `x --`
    pub direct: bool,
}

impl Rendering {
    pub fn render(&self) -> String {
        let mut s = " ".repeat(self.lead as usize);
        let mut prev_quoted = false;
        for (i, t) in self.list.iter().enumerate() {
            let q = quote_token(t, self.force[i]);
            if i > 0 {
                let mut gap = self.gaps[i] as usize;
                if gap == 0 && !prev_quoted {
                    gap = 1;
                }
                s.push_str(&" ".repeat(gap));
            }
            prev_quoted = q.starts_with('"');
            s.push_str(&q);
        }
        if self.open_last && prev_quoted {
            // an unterminated quoted token runs to the end of the line: no closing quote, no trailing blanks
            s.pop();
            return s;
        }
        s.push_str(&" ".repeat(self.trail as usize));
        s
    }
}

fn token_strategy(typeable: bool) -> impl Strategy<Value = String> {
    // U+0085, U+00A0, U+2003, U+3000 are blanks to Unicode but ordinary characters to the tokeniser ("split at runs of spaces")
    let table: Vec<char> = vec!['a', 'b', ' ', '"', '\\', '-', 'é', 'Ж', '₿', '𝄞', 'x', '\'', '\u{a0}', '\u{3000}', '\u{85}', '\u{2003}', 'à', 'ก'];
    let ctl: Vec<char> = if typeable { vec!['a'] } else { vec!['\t', '\u{1}', '\u{1f}', '\u{7f}'] };
    let ch = prop_oneof![
        16 => any::<u16>().prop_map(move |s| pick(&table, s)),
        1 => any::<u16>().prop_map(move |s| pick(&ctl, s)),
        2 => any::<char>().prop_map(move |c| if c == '\0' || (typeable && (c < ' ' || c == '\x7f')) { 'Ω' } else { c }),
    ];
    proptest::collection::vec(ch, 0..8).prop_map(|v| v.into_iter().collect())
}

fn rendering_strategy(typeable: bool) -> impl Strategy<Value = Rendering> {
    proptest::collection::vec((token_strategy(typeable), any::<bool>(), 0u8..3), 0..=6).prop_flat_map(|items| {
        (Just(items), 0u8..3, 0u8..3, 0u8..4, any::<bool>()).prop_map(|(items, lead, trail, open, direct)| Rendering {
            list: items.iter().map(|i| i.0.clone()).collect(),
            force: items.iter().map(|i| i.1).collect(),
            gaps: items.iter().map(|i| i.2).collect(),
            lead,
            trail,
            open_last: open == 0,
            direct,
        })
    })
}

fn check_roundtrip(r: &Rendering) -> Verdict {
    let line = r.render();
    let (got, _) = real_tokens(&line);
    let got_s = lossy_list(&got);
    if got_s != r.list {
        return Err(Failure::new(
            "roundtrip",
            json!({"list": r.list, "line": line}),
            format!("tokenising {:?} returns the list {:?}", line, r.list),
            format!("{:?}", got_s),
        ));
    }
    Ok(())
}

/// Type a line, press Enter, return the handler log
fn through_cli(sub: &str, line: &str, case: &dyn Fn() -> Value) -> Result<Vec<vmodel::session::Call>, Failure> {
    let cfg = Config {
        cmd_buf: 2048,
        hist_buf: 0,
        ..Config::default()
    };
    let (s, _) = Sess::<RawSet>::new(&cfg, None);
    let mut s = s.map_err(|e| Failure::new(sub, case(), "construction succeeds", format!("{:?}", e)))?;
    for &b in line.as_bytes() {
        s.byte(b).map_err(|e| Failure::new(sub, case(), "Ok", format!("{:?}", e)))?;
    }
    s.byte(b'\r').map_err(|e| Failure::new(sub, case(), "Ok", format!("{:?}", e)))?;
    Ok(s.proc_.log.clone())
}

/// The list typed as the whole line: the first string is the command name, the rest are classified arguments
fn check_direct_cli(list: &[String], line: &str) -> Verdict {
    let case = || json!({"list": list, "line": line, "direct": true});
    let log = through_cli("roundtrip-cli", line, &case)?;
    let d = Dispatch::Exactly(list[0].clone(), ref_classify(&list[1..]));
    check_dispatch(&d, &log, "Enter", line).map_err(|(e, o)| Failure::new("roundtrip-cli", case(), e, o))
}

/// A whole line through the Cli against the reference grammar (name + classified arguments, or no dispatch)
fn check_line_cli(line: &str) -> Verdict {
    let case = || json!({"line": line});
    let log = through_cli("tokens-cli", line, &case)?;
    check_dispatch(&expected_dispatch(line, true), &log, "Enter", line).map_err(|(e, o)| Failure::new("tokens-cli", case(), e, o))
}

fn check_roundtrip_cli(list: &[String], line: &str) -> Verdict {
    let case = || json!({"list": list, "line": line});
    let cfg = Config {
        cmd_buf: 2048,
        hist_buf: 0,
        ..Config::default()
    };
    let (s, _) = Sess::<RawSet>::new(&cfg, None);
    let mut s = s.map_err(|e| Failure::new("roundtrip-cli", case(), "construction succeeds", format!("{:?}", e)))?;
    let typed = format!("x -- {}", line);
    for &b in typed.as_bytes() {
        s.byte(b).map_err(|e| Failure::new("roundtrip-cli", case(), "Ok", format!("{:?}", e)))?;
    }
    s.byte(b'\r').map_err(|e| Failure::new("roundtrip-cli", case(), "Ok", format!("{:?}", e)))?;
    let log = &s.proc_.log;
    let mut exp = vec![LArg::DoubleDash];
    exp.extend(list.iter().map(|t| LArg::Value(t.as_bytes().to_vec())));
    if log.len() != 1 || log[0].name != b"x" || log[0].args != exp {
        return Err(Failure::new(
            "roundtrip-cli",
            case(),
            format!("handler invoked once with name x and values {:?} after `--`", list),
            format!("{:?}", log),
        ));
    }
    Ok(())
}

fn fuzz_case(d: &[u8]) -> Value {
    json!({"line": String::from_utf8_lossy(d)})
}

/// G8: coverage-guided search with the reference grammar inside the target (libFuzzer + ASan, dictionary of spellings
/// parsers treat specially); seeds = short lines over the enumeration alphabets and a few renderings
fn prepare(tier: vmodel::engine::Tier, seed: u64, _dir: &std::path::Path) -> Result<Value, super::PrepError> {
    let mut seeds: Vec<Vec<u8>> = Vec::new();
    for l in ["a b", "\"a b\" c", "\"\" x", "a\"b c\"", "\"q\\\"\\\\\" z", "x -- -y --z", "é \"ж ₿\" 𝄞", "  lead  trail  ", "\"open", "a \\ b", "set \"C:\\dir\" 1"] {
        seeds.push(l.as_bytes().to_vec());
    }
    super::fuzzdrv::prepare_fdiff("C07", "tokens", "tokens-random", "text.dict", tier, seed, seeds, fuzz_case)
}

fn run_shard(ctx: &ShardCtx) {
    super::fuzzdrv::replay_fdiff_corpus(ctx, "C07", "tokens", "tokens-random", fuzz_case);
    // G1
    let syms: [&str; 6] = ["a", " ", "\"", "\\", "-", "é"];
    let depth = ctx.tier.pick(10u32, 11u32);
    let mut idx = 0u64;
    'outer: for len in 0..=depth {
        let total = 6u64.pow(len);
        for code in 0..total {
            idx += 1;
            if !ctx.mine(idx) {
                continue;
            }
            let mut line = String::with_capacity(20);
            let mut c = code;
            for _ in 0..len {
                line.push_str(syms[(c % 6) as usize]);
                c /= 6;
            }
            ctx.count_eval();
            match compare_line(&line) {
                Ok(true) => {
                    if nontrivial(&line) {
                        ctx.nontrivial_enum(|| json!({"line": line}));
                    }
                }
                Ok(false) => ctx.skipped(),
                Err((e, o)) => {
                    ctx.fail(Failure::new("tokens-enum", json!({"line": line}), format!("tokens of {:?}: {}", line, e), o));
                    break 'outer;
                }
            }
        }
    }
    ctx.exhaustive(&format!("lines of <= {} symbols over 6", depth), !ctx.failed());
    let enumerated = ctx.res.borrow().evaluations;
    ctx.class_n("enumerated", enumerated);

    // G1b: a second alphabet - characters Unicode calls blanks (U+00A0, U+3000) are ordinary token characters
    // and C0 control characters (TAB, U+0001, U+001F) are ordinary token characters as well: only the space separates
    let depth2 = ctx.tier.pick(8u32, 9u32);
    for syms2 in [["a", " ", "\"", "\u{a0}", "\u{3000}"], ["a", " ", "\"", "\t", "\u{1f}"]] {
        'outer2: for len in 1..=depth2 {
            let total = 5u64.pow(len);
            for code in 0..total {
                idx += 1;
                if !ctx.mine(idx) || ctx.failed() {
                    continue;
                }
                let mut line = String::with_capacity(24);
                let mut c = code;
                for _ in 0..len {
                    line.push_str(syms2[(c % 5) as usize]);
                    c /= 5;
                }
                if !line.contains(syms2[3]) && !line.contains(syms2[4]) {
                    continue;
                }
                ctx.count_eval();
                match compare_line(&line) {
                    Ok(_) => ctx.nontrivial_enum(|| json!({"line": line})),
                    Err((e, o)) => {
                        ctx.fail(Failure::new("tokens-enum", json!({"line": line}), format!("tokens of {:?}: {}", line, e), o));
                        break 'outer2;
                    }
                }
            }
        }
    }
    ctx.exhaustive(&format!("lines of <= {} symbols over {{a, space, quote, U+00A0, U+3000}} and over {{a, space, quote, TAB, U+001F}}", depth2), !ctx.failed());

    // G5: every short line typed through a whole Cli (Enter acts on the line as typed: nothing is trimmed, no token is
    // lost between the tokeniser and the handler)
    let depth5 = ctx.tier.pick(7u32, 8u32);
    let mut g5 = 0u64;
    'outer5: for len in 1..=depth5 {
        let total = 6u64.pow(len);
        for code in 0..total {
            idx += 1;
            if !ctx.mine(idx) || ctx.failed() {
                continue;
            }
            let mut line = String::with_capacity(20);
            let mut c = code;
            for _ in 0..len {
                line.push_str(syms[(c % 6) as usize]);
                c /= 6;
            }
            ctx.count_eval();
            g5 += 1;
            if ctx.trace_file.is_some() {
                ctx.trace(&json!({"check": "tokens-cli", "case": {"line": line}}));
            }
            match vmodel::engine::guarded(|| check_line_cli(&line)) {
                Ok(Ok(())) => {
                    if nontrivial(&line) {
                        ctx.nontrivial_enum(|| json!({"typed": line}));
                    }
                }
                Ok(Err(f)) => {
                    ctx.fail(f);
                    break 'outer5;
                }
                Err(p) => {
                    ctx.fail(Failure::new("tokens-cli", json!({"line": line}), "no panic", p));
                    break 'outer5;
                }
            }
        }
    }
    ctx.exhaustive(&format!("lines of <= {} symbols over 6, typed through the Cli", depth5), !ctx.failed());
    ctx.class_n("enumerated through the Cli", g5);

    // G6: many tokens on one line (counts beyond 255; beyond 65535 in the thorough tier), function level and, while the line
    // fits a 2 KiB command buffer, typed through the Cli
    {
        let mut sizes: Vec<usize> = vec![254, 255, 256, 257, 258, 300, 511, 512, 600];
        if ctx.tier == vmodel::engine::Tier::Thorough {
            sizes.extend([65_534, 65_535, 65_536, 65_537]);
        }
        let pool = ["a", "b", "\"\"", "é", "\"x y\"", "-"];
        let plain = ["a", "b", "", "é", "x y", "-"];
        for (si, n) in sizes.iter().enumerate() {
            if !ctx.mine(si as u64) || ctx.failed() {
                continue;
            }
            let list: Vec<String> = (0..*n).map(|i| plain[(i * 5 + si) % plain.len()].to_string()).collect();
            let line: String = (0..*n).map(|i| pool[(i * 5 + si) % pool.len()]).collect::<Vec<_>>().join(" ");
            ctx.count_eval();
            let (got, _) = real_tokens(&line);
            let got_s = lossy_list(&got);
            if got_s != list {
                let at = got_s.iter().zip(list.iter()).position(|(a, b)| a != b).unwrap_or(got_s.len().min(list.len()));
                ctx.fail(Failure::new("tokens-enum", json!({"line": line}), format!("tokens of a line with {} tokens: {} tokens (first difference at #{}: {:?})", n, list.len(), at, list.get(at)), format!("{} tokens, there {:?}", got_s.len(), got_s.get(at))));
                break;
            }
            ctx.nontrivial_enum(|| json!({"tokens_on_the_line": n}));
            if line.len() + 8 < 2048 {
                ctx.count_eval();
                let mut whole = vec!["x".to_string(), "--".to_string()];
                whole.extend(list.iter().cloned());
                if let Err(f) = check_roundtrip_cli(&list, &line) {
                    ctx.fail(f);
                    break;
                }
                let _ = whole;
            }
        }
    }

    // G7: length sweeps - runs of N blanks, words and quoted tokens of N characters, N escapes, for every N up to 300
    // (a tokeniser that works in blocks, or treats long runs specially, must agree at every length)
    {
        let max_n = ctx.tier.pick(300usize, 1100usize);
        let mut swept = 0u64;
        'sweep: for n in 0..=max_n {
            idx += 1;
            if !ctx.mine(idx) || ctx.failed() {
                continue;
            }
            let b = " ".repeat(n);
            let a = "a".repeat(n);
            let lines = [
                format!("x{}y", b),
                format!("set{}led on", b),
                format!("\"q\"{}r{}", b, b),
                format!("{}\"b c\" d", a),
                format!("send {}\"b c\" d", a),
                format!("\"{} b\" c", a),
                format!("{} \"\"{}z", a, b),
                format!("\"{}\" t", "\\\"".repeat(n)),
                format!("{} ж{}\"é {}\"", "é".repeat(n), b, a),
                format!("-{} --{} -- -{}", a, a, a),
            ];
            for line in lines.iter() {
                ctx.count_eval();
                swept += 1;
                match compare_line(line) {
                    Ok(_) => {}
                    Err((e, o)) => {
                        ctx.fail(Failure::new("tokens-enum", json!({"line": line}), format!("tokens of {:?} (length sweep, n = {}): {}", line, n, e), o));
                        break 'sweep;
                    }
                }
                if line.len() < 2000 && n % 3 == 0 {
                    ctx.count_eval();
                    if let Err(f) = vmodel::engine::guarded(|| check_line_cli(line)).unwrap_or_else(|p| Err(Failure::new("tokens-cli", json!({"line": line}), "no panic", p))) {
                        ctx.fail(f);
                        break 'sweep;
                    }
                }
            }
            ctx.nontrivial_enum(|| json!({"length_sweep_n": n}));
        }
        ctx.class_n("length sweep lines", swept);
        ctx.exhaustive(&format!("blank runs, words, quoted tokens and escape runs of every length 0..={}", max_n), !ctx.failed());
    }

    // G2
    let table: Vec<char> = vec!['a', 'b', ' ', ' ', '"', '"', '\\', '-', 'é', 'Ж', '₿', '𝄞', '\t', '\u{1}', '\u{1f}', '\u{a0}', '\u{85}'];
    let ch = prop_oneof![
        12 => any::<u16>().prop_map(move |s| pick(&table, s)),
        1 => any::<char>().prop_map(|c| if c == '\0' { 'Ω' } else { c }),
    ];
    let strat = proptest::collection::vec(ch, 0..200).prop_map(|v| v.into_iter().collect::<String>());
    ctx.run_prop("tokens-random", ctx.tier.pick(1_000_000, 10_000_000), strat, |l| json!({"line": l}), |line| {
        let r = check_line("tokens-random", line);
        if r.is_ok() {
            if ref_tokens(line).is_none() {
                ctx.skipped();
            } else if nontrivial(line) {
                ctx.class("random:nontrivial");
                ctx.nontrivial(fingerprint(line), || json!({"line": line}));
            }
        }
        r
    });

    // G3
    ctx.run_prop(
        "roundtrip",
        ctx.tier.pick(1_000_000, 10_000_000),
        rendering_strategy(false),
        |r| json!({"list": r.list, "line": r.render()}),
        |r| {
            let v = check_roundtrip(r);
            if v.is_ok() {
                let line = r.render();
                if nontrivial(&line) {
                    ctx.class("roundtrip:nontrivial");
                    ctx.nontrivial(fingerprint(&line), || json!({"list": r.list, "line": line}));
                }
            }
            v
        },
    );

    // G4
    ctx.run_prop(
        "roundtrip-cli",
        ctx.tier.pick(200_000, 2_000_000),
        rendering_strategy(true),
        |r| json!({"list": r.list, "line": r.render(), "direct": r.direct && !r.list.is_empty() && is_help_request(&r.list) == Some(false)}),
        |r| {
            let line = r.render();
            let direct = r.direct && !r.list.is_empty() && is_help_request(&r.list) == Some(false);
            let v = if direct { check_direct_cli(&r.list, &line) } else { check_roundtrip_cli(&r.list, &line) };
            if v.is_ok() && direct {
                ctx.class("roundtrip-cli:typed as the whole line");
            }
            if v.is_ok() && nontrivial(&line) {
                ctx.class("roundtrip-cli:nontrivial");
                ctx.nontrivial(fingerprint(&("cli", &line)), || json!({"list": r.list, "typed": format!("x -- {}", line)}));
            }
            v
        },
    );
}

fn replay(sub: &str, case: &Value) -> Verdict {
    let line = case["line"].as_str().unwrap_or("").to_string();
    match sub {
        "roundtrip" | "roundtrip-cli" => {
            let list: Vec<String> = case["list"]
                .as_array()
                .map(|a| a.iter().map(|s| s.as_str().unwrap_or("").to_string()).collect())
                .unwrap_or_default();
            if sub == "roundtrip-cli" && case["direct"].as_bool() == Some(true) {
                check_direct_cli(&list, &line)
            } else if sub == "roundtrip-cli" {
                check_roundtrip_cli(&list, &line)
            } else {
                let (got, _) = real_tokens(&line);
                let got_s = lossy_list(&got);
                if got_s != list {
                    return Err(Failure::new(sub, case.clone(), format!("{:?}", list), format!("{:?}", got_s)));
                }
                Ok(())
            }
        }
        "tokens-cli" => check_line_cli(&line),
        _ => check_line(sub, &line),
    }
}
