//! C16 — disabling a feature removes that facility only.

use std::{collections::HashMap, path::Path, process::Command};

use proptest::prelude::*;
use serde_json::{json, Value};
use vmodel::{
    engine::{fingerprint, Failure, ShardCtx, Tier, Verdict},
    genrun::GenServer,
    refs::{is_help_request, ref_tokens, RefEditor},
    session::{Call, LArg, Op},
};

use super::{
    common::unhex,
    lockstep::{case_json, case_from_json, case_strategy, check_dispatch, expected_dispatch, Case, Fail, GenOpts},
    Check, PrepError, DEFAULT,
};

pub fn check() -> Check {
    Check {
        id: "C16",
        run_shard,
        replay,
        prepare: Some(prepare),
        prepare_replay: Some(|v| super::declcommon::prepare_replay_features("C16", v, false)),
        quick_limit_s: 1800,
        floor_quick: 2_000,
        floor_thorough: 50_000,
        rule: "Configurations: the session runner is built for all 8 subsets of {history, autocomplete, help} (macros and hooks on) - the build itself is part of the check. Inputs: random sessions as in C01/C05/C06 over a derived group, a derived enum and raw commands, rich in Up/Down, Tab and help-shaped lines. \
               Oracle (a), per build: the reference editor and dispatch model configured the same way - history off: Up/Down change nothing and emit nothing; autocomplete off: Tab likewise; help off: `help` / `--help` lines reach the handler with the reference tokens; everything else as with all features. \
               Oracle (b), metamorphic across builds: the session with the keys of the disabled facilities deleted, run on the full build, yields byte-identical sink output, handler log and editor states as the original session on the reduced build (with help disabled: only for sessions without help-shaped lines and without Tab on a prefix of `help`). \
               Oracle (c), differential at byte level: sessions that mix raw CR / LF / ESC / `[` bytes around Tab and Up/Down; whenever the keys of a build's disabled facilities happen to be no-ops on the full build (nothing to complete, nothing to recall), that build must produce exactly the full build's trace for the same bytes. \
               (d) programs: generated declarations that use `help`, `-h` and `--help` as ordinary command and option names, compiled with the repository's macros WITHOUT the help feature; lines (with those words also where they are not declared) must parse exactly as the declaration interpreter of C09 says. \
               Non-trivial = the session uses at least one key or line of a facility that is disabled in at least one compared build (for (d): the line contains help / -h / --help); distinct by (configuration, ops). (d) also presses Tab on the generated declarations in the build without help, judged by C11's completion model (words that are a prefix of `help` left out).",
        assumptions: &[
            "completion of prefixes of `help` when the help feature is off is left open (such sessions are not compared across the help axis)",
            "the harness's own trait impls are cfg-gated exactly like the library's traits, so the runner compiles in all 8 configurations on the baseline tree; a build failure for any subset is reported as a violation",
        ],
        ..DEFAULT
    }
}

const HELP_OFF_DECLS: usize = 16;

fn help_off_set(seed: u64) -> vmodel::gencrate::GenSet {
    vmodel::gencrate::layout_decls_features("C16-helpoff", vec![vmodel::gencrate::declarations_help_off(seed, 0, HELP_OFF_DECLS)], false)
}

fn prepare(_tier: Tier, seed: u64, _dir: &Path) -> Result<Value, PrepError> {
    let t0 = std::time::Instant::now();
    let out = Command::new(vmodel::rooted("tools/build_features.sh")).output().map_err(|e| PrepError::Inconclusive(format!("cannot run build_features.sh: {}", e)))?;
    if out.status.success() {
        // (d) generated declarations that use `help`, `-h`, `--help` as ordinary names, compiled without the help feature
        let t1 = std::time::Instant::now();
        if let Err(log) = vmodel::gencrate::build(&help_off_set(seed)) {
            let canon = vmodel::gencrate::layout_decls_features("C16-helpoff-canonical", vec![vmodel::gencrate::declarations_help_off(0, 0, HELP_OFF_DECLS)], false);
            return match vmodel::gencrate::build(&canon) {
                Ok(()) => Err(PrepError::Inconclusive(format!("seed-generated help-off declaration crate does not compile while the canonical one does (generator problem, not a finding):\n{}", log))),
                Err(clog) => Err(PrepError::Violation(Failure::new(
                    "feature-build",
                    json!({"failed": "derive output for declarations using help / -h / --help as ordinary names, built without the help feature"}),
                    "with the help feature off, commands and options named help / h compile like any others",
                    clog,
                ))),
            };
        }
        return Ok(json!({"feature_builds": 8, "build_s": (t1.duration_since(t0).as_secs_f64() * 10.0).round() / 10.0, "help_off_declarations": HELP_OFF_DECLS, "help_off_build_s": (t1.elapsed().as_secs_f64() * 10.0).round() / 10.0}));
    }
    let stdout = String::from_utf8_lossy(&out.stdout).to_string();
    let mut detail = String::new();
    for l in stdout.lines() {
        if let Some(m) = l.strip_prefix("FEATURE-BUILD-FAILED mask=") {
            let log = std::fs::read_to_string(vmodel::rooted(&format!("harness/target/feat-{}.log", m))).unwrap_or_default();
            let errs: Vec<&str> = log.lines().filter(|l| !l.trim_start().starts_with("Compiling")).collect();
            let n = errs.len();
            detail.push_str(&format!("--- features {} ---\n{}\n", mask_name(m.parse().unwrap_or(0)), errs[n.saturating_sub(25)..].join("\n")));
        }
    }
    Err(PrepError::Violation(Failure::new(
        "feature-build",
        json!({"failed": stdout.trim()}),
        "the library (with the harness that builds on the baseline tree) compiles under every subset of {history, autocomplete, help}",
        detail,
    )))
}

fn mask_name(mask: usize) -> String {
    let mut v = Vec::new();
    if mask & 1 != 0 {
        v.push("history");
    }
    if mask & 2 != 0 {
        v.push("autocomplete");
    }
    if mask & 4 != 0 {
        v.push("help");
    }
    if v.is_empty() {
        "(none)".into()
    } else {
        v.join("+")
    }
}

struct Builds {
    servers: Vec<GenServer>,
}

impl Builds {
    fn start() -> Result<Self, String> {
        let mut servers = Vec::new();
        for m in 0..8 {
            servers.push(GenServer::start(&vmodel::rooted(&format!("harness/target/feat-{}/release/vsession", m)))?);
        }
        Ok(Builds { servers })
    }
    fn trace(&mut self, mask: usize, c: &Case, ops: &[Op]) -> Result<Value, Fail> {
        let r = self.servers[mask]
            .ask(&json!({"cfg": c.cfg, "ops": ops}))
            .map_err(|e| (format!("build [{}]: the session runs without abort", mask_name(mask)), e))?;
        if let Some(p) = r.get("panic").and_then(|p| p.as_str()) {
            return Err((format!("build [{}]: no panic", mask_name(mask)), p.to_string()));
        }
        if let Some(e) = r.get("error").and_then(|p| p.as_str()) {
            return Err((format!("build [{}]: Ok", mask_name(mask)), e.to_string()));
        }
        Ok(r)
    }
}

fn calls_of(step: &Value) -> Vec<Call> {
    step["calls"]
        .as_array()
        .map(|a| {
            a.iter()
                .map(|c| Call {
                    name: unhex(c["name"].as_str().unwrap_or("")),
                    args: c["args"]
                        .as_array()
                        .map(|a| {
                            a.iter()
                                .map(|x| {
                                    if x.is_string() {
                                        LArg::DoubleDash
                                    } else if let Some(l) = x.get("long") {
                                        LArg::Long(unhex(l.as_str().unwrap_or("")))
                                    } else if let Some(s) = x.get("short") {
                                        LArg::Short(s.as_u64().unwrap_or(0) as u32)
                                    } else {
                                        LArg::Value(unhex(x["value"].as_str().unwrap_or("")))
                                    }
                                })
                                .collect()
                        })
                        .unwrap_or_default(),
                    typed: Ok(String::new()),
                })
                .collect()
        })
        .unwrap_or_default()
}

fn line_of(step: &Value, key: &str) -> String {
    String::from_utf8_lossy(&unhex(step[key].as_str().unwrap_or(""))).to_string()
}

/// (a) one build against the model configured the same way
fn check_build(mask: usize, c: &Case, tr: &Value) -> Result<(), Fail> {
    let hist = mask & 1 != 0;
    let ac = mask & 2 != 0;
    let help = mask & 4 != 0;
    let b = mask_name(mask);
    let steps = tr["steps"].as_array().cloned().unwrap_or_default();
    if steps.len() != c.ops.len() {
        return Err((format!("build [{}]: one trace step per op", b), format!("{} steps for {} ops", steps.len(), c.ops.len())));
    }
    let mut ed = RefEditor::new(c.cfg.cmd_buf);
    for (i, (op, st)) in c.ops.iter().zip(steps.iter()).enumerate() {
        let what = format!("build [{}] op #{} {:?}", b, i, op);
        if !st["err"].is_null() {
            return Err((format!("{}: Ok", what), st["err"].to_string()));
        }
        let pre = line_of(st, "pre");
        let post = line_of(st, "line");
        let cursor = st["cursor"].as_u64().unwrap_or(0) as usize;
        let calls = calls_of(st);
        let noop = |why: &str| -> Result<(), Fail> {
            if st["out"].as_str() != Some("") || post != pre || cursor != st["pre_cursor"].as_u64().unwrap_or(0) as usize || !calls.is_empty() {
                return Err((
                    format!("{}: does nothing and emits nothing ({} is disabled)", what, why),
                    format!("line {:?} -> {:?}, cursor {}, output {:?}", pre, post, cursor, String::from_utf8_lossy(&unhex(st["out"].as_str().unwrap_or("")))),
                ));
            }
            Ok(())
        };
        let mut compare = true;
        match op {
            Op::Char(ch) => {
                ed.insert(*ch);
            }
            Op::Text(t) => {
                for ch in t.chars() {
                    ed.insert(ch);
                }
            }
            Op::Backspace => {
                ed.backspace();
            }
            Op::Left => {
                ed.left();
            }
            Op::Right => {
                ed.right();
            }
            Op::Up | Op::Down => {
                if !hist {
                    noop("history")?;
                } else {
                    ed.set_with_cursor(&post, cursor.min(post.chars().count()));
                    compare = false;
                }
            }
            Op::Tab => {
                if !ac {
                    noop("autocomplete")?;
                } else {
                    ed.set_with_cursor(&post, cursor.min(post.chars().count()));
                    compare = false;
                }
            }
            Op::Enter => {
                check_dispatch(&expected_dispatch(&pre, help), &calls, &what, &pre)?;
                ed.clear();
            }
            Op::Write(_) | Op::SetPrompt(_) => {}
            Op::Raw(_) => return Err(("no raw ops".into(), what)),
        }
        if !matches!(op, Op::Enter) && !calls.is_empty() {
            return Err((format!("{}: only Enter invokes the handler", what), format!("{} invocations", calls.len())));
        }
        if compare && (post != ed.string() || cursor != ed.cursor) {
            return Err((format!("{}: line {:?} cursor {}", what, ed.string(), ed.cursor), format!("line {:?} cursor {}", post, cursor)));
        }
    }
    Ok(())
}

/// keys completed by each op at byte level (None = the stream touches a decoding zone left open)
fn keys_per_op(cfg: &vmodel::session::Config, ops: &[Op]) -> Option<Vec<Vec<vmodel::refs::Key>>> {
    let mut dec = vmodel::refs::RefDecoder::new();
    let mut prev: Option<u8> = None;
    let mut out = Vec::with_capacity(ops.len());
    for op in ops {
        let mut keys = Vec::new();
        for byte in op.encode(cfg, prev) {
            prev = Some(byte);
            if let Some(k) = dec.accept(byte) {
                keys.push(k);
            }
        }
        out.push(keys);
    }
    if dec.unspecified {
        None
    } else {
        Some(out)
    }
}

fn help_axis_comparable(cfg: &vmodel::session::Config, ops: &[Op], tr: &Value) -> bool {
    use vmodel::refs::Key;
    let Some(keys) = keys_per_op(cfg, ops) else { return false };
    let steps = tr["steps"].as_array().cloned().unwrap_or_default();
    for (ks, st) in keys.iter().zip(steps.iter()) {
        let pre = line_of(st, "pre");
        if ks.contains(&Key::Enter) {
            // an op that presses Enter (possibly after other keys of the same op): judge conservatively
            if ks.len() > 1 && pre.contains('h') {
                return false;
            }
            match ref_tokens(&pre) {
                Some(t) => {
                    if !t.is_empty() && is_help_request(&t) != Some(false) {
                        return false;
                    }
                }
                None => {
                    if pre.contains('h') {
                        return false;
                    }
                }
            }
        }
        if ks.contains(&Key::Tab) {
            let w = pre.trim_matches(' ');
            if !w.is_empty() && "help".starts_with(w) {
                return false;
            }
        }
    }
    true
}

/// returns (non-trivial, skipped comparisons)
fn run_case(b: &mut Builds, c: &Case) -> Result<(bool, u64), Fail> {
    let mut traces = Vec::new();
    for m in 0..8 {
        let t = b.trace(m, c, &c.ops)?;
        check_build(m, c, &t)?;
        traces.push(t);
    }
    let uses_hist = c.ops.iter().any(|o| matches!(o, Op::Up | Op::Down));
    let uses_tab = c.ops.iter().any(|o| matches!(o, Op::Tab));
    let help_cmp = help_axis_comparable(&c.cfg, &c.ops, &traces[7]);
    let mut skipped = 0;
    // (b) metamorphic: projection on the full build == original on the reduced build
    let mut full_cache: HashMap<(bool, bool), Value> = HashMap::new();
    for m in 0..7usize {
        let no_hist = m & 1 == 0;
        let no_ac = m & 2 == 0;
        let no_help = m & 4 == 0;
        // with help disabled the builds are only comparable on sessions without help-shaped lines
        // (judged on the lines each of the two compared runs actually submits)
        if no_help && !help_axis_comparable(&c.cfg, &c.ops, &traces[m]) {
            skipped += 1;
            continue;
        }
        let keep: Vec<bool> = c.ops.iter().map(|o| !((no_hist && matches!(o, Op::Up | Op::Down)) || (no_ac && matches!(o, Op::Tab)))).collect();
        let projected: Vec<Op> = c.ops.iter().zip(keep.iter()).filter(|(_, k)| **k).map(|(o, _)| o.clone()).collect();
        if !full_cache.contains_key(&(no_hist, no_ac)) {
            let t = if projected.len() == c.ops.len() { traces[7].clone() } else { b.trace(7, c, &projected)? };
            full_cache.insert((no_hist, no_ac), t);
        }
        let full = &full_cache[&(no_hist, no_ac)];
        if no_help && !help_axis_comparable(&c.cfg, &projected, full) {
            skipped += 1;
            continue;
        }
        let fsteps = full["steps"].as_array().cloned().unwrap_or_default();
        let rsteps: Vec<&Value> = traces[m]["steps"].as_array().map(|a| a.iter().zip(keep.iter()).filter(|(_, k)| **k).map(|(s, _)| s).collect()).unwrap_or_default();
        if full["init"] != traces[m]["init"] {
            return Err((format!("build [{}] prints the same initial prompt as the full build", mask_name(m)), format!("{} vs {}", traces[m]["init"], full["init"])));
        }
        for (i, (fs, rs)) in fsteps.iter().zip(rsteps.iter()).enumerate() {
            for key in ["out", "line", "cursor", "calls", "prompt"] {
                if fs[key] != rs[key] {
                    let show = |v: &Value| match v.as_str() {
                        Some(h) => format!("{:?}", String::from_utf8_lossy(&unhex(h))),
                        None => v.to_string(),
                    };
                    return Err((
                        format!(
                            "build [{}] behaves like the full build on the session without the disabled keys: kept op #{} ({:?}) has {} = {}",
                            mask_name(m),
                            i,
                            projected[i],
                            key,
                            show(&fs[key])
                        ),
                        show(&rs[key]),
                    ));
                }
            }
        }
    }
    let has_help_line = !help_cmp;
    Ok((uses_hist || uses_tab || has_help_line, skipped))
}

/// (c) purely differential, byte level: if in the full build every key of a facility that is disabled in
/// the reduced build happens to be a no-op in this session (Tab with nothing to complete, Up with nothing to
/// recall), then the reduced build must produce exactly the same trace for the same bytes. Sessions here mix
/// terminator encodings and lone ESC / `[` bytes around those keys, so that a facility which swallows its key
/// too early (before the decoder sees it) is exposed.
fn run_raw_case(b: &mut Builds, c: &Case) -> Result<(bool, u64), Fail> {
    let full = b.trace(7, c, &c.ops)?;
    let fsteps = full["steps"].as_array().cloned().unwrap_or_default();
    let noop = |st: &Value| st["out"].as_str() == Some("") && st["line"] == st["pre"] && st["cursor"] == st["pre_cursor"] && st["calls"].as_array().map(|a| a.is_empty()).unwrap_or(true);
    // which ops complete a Tab / Up / Down key at byte level (an arrow may be assembled from raw ESC, `[`, `A`)
    let Some(keys) = keys_per_op(&c.cfg, &c.ops) else { return Ok((false, 1)) };
    let is_tab: Vec<bool> = keys.iter().map(|k| k.contains(&vmodel::refs::Key::Tab)).collect();
    let is_hist: Vec<bool> = keys.iter().map(|k| k.contains(&vmodel::refs::Key::Up) || k.contains(&vmodel::refs::Key::Down)).collect();
    let tab_noop = fsteps.iter().enumerate().all(|(i, st)| !is_tab[i] || noop(st));
    let hist_noop = fsteps.iter().enumerate().all(|(i, st)| !is_hist[i] || noop(st));
    let help_ok = help_axis_comparable(&c.cfg, &c.ops, &full);
    let mut skipped = 0;
    let mut compared = false;
    for m in 0..7usize {
        let no_hist = m & 1 == 0;
        let no_ac = m & 2 == 0;
        let no_help = m & 4 == 0;
        if (no_hist && !hist_noop) || (no_ac && !tab_noop) || (no_help && !help_ok) {
            skipped += 1;
            continue;
        }
        let t = b.trace(m, c, &c.ops)?;
        if no_help && !help_axis_comparable(&c.cfg, &c.ops, &t) {
            skipped += 1;
            continue;
        }
        compared = true;
        let rsteps = t["steps"].as_array().cloned().unwrap_or_default();
        if t["init"] != full["init"] {
            return Err((format!("build [{}] prints the same initial prompt as the full build", mask_name(m)), format!("{} vs {}", t["init"], full["init"])));
        }
        for (i, (fs, rs)) in fsteps.iter().zip(rsteps.iter()).enumerate() {
            for key in ["out", "line", "cursor", "calls", "prompt", "err"] {
                if fs[key] != rs[key] {
                    let show = |v: &Value| match v.as_str() {
                        Some(h) => format!("{:?}", String::from_utf8_lossy(&unhex(h))),
                        None => v.to_string(),
                    };
                    return Err((
                        format!(
                            "build [{}] behaves exactly like the full build on a session in which the keys of its disabled facilities have no effect in the full build: op #{} ({:?}) has {} = {}",
                            mask_name(m),
                            i,
                            c.ops[i],
                            key,
                            show(&fs[key])
                        ),
                        show(&rs[key]),
                    ));
                }
            }
        }
    }
    let around = c.ops.windows(3).any(|w| matches!(w[1], Op::Tab | Op::Up | Op::Down) && matches!(w[0], Op::Raw(_) | Op::Enter) && matches!(w[2], Op::Raw(_) | Op::Enter));
    Ok((compared && around, skipped))
}

fn raw_case_strategy() -> impl Strategy<Value = Case> {
    use super::common::pick;
    let chars = vec!['a', 'x', 'g', 'h', ' ', '-', 'é', '[', 'A', 'B'];
    let texts = vec!["get-led 1", "zz", "exit", "q -v", "эхо hi"];
    let op = prop_oneof![
        10 => any::<u16>().prop_map(move |s| Op::Char(pick(&chars, s))),
        4 => any::<u16>().prop_map(move |s| Op::Text(pick(&texts, s).to_string())),
        6 => Just(Op::Raw(vec![b'\r'])),
        6 => Just(Op::Raw(vec![b'\n'])),
        3 => Just(Op::Raw(vec![0x1B])),
        2 => Just(Op::Raw(vec![b'['])),
        8 => Just(Op::Tab),
        4 => Just(Op::Up),
        3 => Just(Op::Down),
        2 => Just(Op::Left),
        2 => Just(Op::Backspace),
    ];
    (
        prop_oneof![Just(0usize), Just(8), Just(32)],
        prop_oneof![Just(0usize), Just(0), Just(16)],
        prop_oneof![Just("raw"), Just("enum"), Just("group")],
        proptest::collection::vec(op, 1..25),
    )
        .prop_map(|(cb, hb, set, ops)| Case {
            cfg: vmodel::session::Config {
                cmd_buf: cb,
                hist_buf: hb,
                set: set.to_string(),
                ..Default::default()
            },
            ops,
        })
}

fn run_shard(ctx: &ShardCtx) {
    let mut builds = match Builds::start() {
        Ok(b) => b,
        Err(e) => {
            ctx.inconclusive(e);
            return;
        }
    };
    let b = std::cell::RefCell::new(&mut builds);
    let opts = GenOpts {
        writes: 2,
        set_prompts: 2,
        scripts: true,
        max_ops: ctx.tier.pick(30, 60),
        quotes: true,
    };
    ctx.run_prop(
        "feature-matrix",
        ctx.tier.pick(100_000, 1_000_000),
        case_strategy(opts, &["group", "group", "enum", "raw"]),
        case_json,
        |c| match run_case(&mut b.borrow_mut(), c) {
            Ok((nt, skipped)) => {
                for _ in 0..skipped {
                    ctx.skipped();
                }
                if nt {
                    ctx.class("sessions using a facility that is disabled in some build");
                    ctx.nontrivial(fingerprint(&(&c.cfg, &c.ops)), || case_json(c));
                }
                Ok(())
            }
            Err((e, o)) => Err(Failure::new("feature-matrix", Value::Null, e, o)),
        },
    );
    ctx.run_prop(
        "feature-matrix-raw",
        ctx.tier.pick(60_000, 600_000),
        raw_case_strategy(),
        case_json,
        |c| match run_raw_case(&mut b.borrow_mut(), c) {
            Ok((nt, skipped)) => {
                for _ in 0..skipped {
                    ctx.skipped();
                }
                if nt {
                    ctx.class("raw sessions with a disabled-facility key between terminator / ESC bytes, compared byte for byte");
                    ctx.nontrivial(fingerprint(&("raw", &c.cfg, &c.ops)), || case_json(c));
                }
                Ok(())
            }
            Err((e, o)) => Err(Failure::new("feature-matrix-raw", Value::Null, e, o)),
        },
    );
    ctx.exhaustive("all 8 feature subsets built and compared", !ctx.failed());
    drop(b);
    run_help_off_decls(ctx);
}

/// Wrap a token strategy: now and then put `-h` / `--help` somewhere after the name, or ask `help ...`
fn with_help_words(tokens: BoxedStrategy<Vec<String>>) -> BoxedStrategy<Vec<String>> {
    (tokens, 0u8..10, any::<u16>(), any::<bool>())
        .prop_map(|(mut t, k, at, long)| {
            match k {
                0 | 1 => {
                    let pos = 1 + ((at as usize * t.len()) >> 16);
                    t.insert(pos.min(t.len()), if long { "--help".into() } else { "-h".into() });
                }
                2 => t.insert(0, "help".into()),
                3 => t = vec!["help".into()],
                _ => {}
            }
            t
        })
        .boxed()
}

/// (d) with help off, `help`, `-h` and `--help` are delivered to the derived parser like any other word:
/// declarations that use them as command / option names, and lines that use them where they are not declared
fn run_help_off_decls(ctx: &ShardCtx) {
    use super::c09::judge_opts;
    use vmodel::decl::Expect;
    use super::declcommon::{line_strategy, tokens_strategy, Servers};
    let set = help_off_set(ctx.seed);
    let servers = Servers::new();
    let lines = ctx.tier.pick(1200u64, 6000u64);
    let mut gi = 0u64;
    for (bin, decls) in &set.crates {
        for d in decls {
            gi += 1;
            if !ctx.mine(gi) || ctx.failed() {
                continue;
            }
            let uses_help_names = serde_json::to_string(d).map(|s| s.contains("\"help\"") || s.contains("\"short\":\"h\"")).unwrap_or(false);
            ctx.class(if uses_help_names { "help-off declarations declaring help / -h / --help" } else { "help-off declarations without such names" });
            let strat = line_strategy(with_help_words(tokens_strategy(d)));
            ctx.run_prop(
                &format!("helpoff-parse-{}", gi),
                lines * ctx.nshards as u64,
                strat,
                |c| json!({"decl": d, "tokens": c.tokens, "line": c.line, "help_off": true}),
                |c| {
                    let reply = servers.ask(bin, &json!({"d": d.id, "kind": "line", "line": c.line})).map_err(|e| Failure::new("helpoff-parse", Value::Null, "the process survives the line", e))?;
                    match judge_opts(d, c, &reply, false) {
                        Ok(Some(Expect::Unspec(_))) => {
                            ctx.skipped();
                            Ok(())
                        }
                        Ok(Some(exp)) => {
                            let helpish = c.tokens.iter().any(|t| t == "help" || t == "--help" || (t.starts_with('-') && !t.starts_with("--") && t.contains('h')));
                            if helpish {
                                ctx.class("help-off lines with help / -h / --help");
                                ctx.nontrivial(fingerprint(&("helpoff", gi, &c.tokens)), || json!({"build": "history+autocomplete (help off)", "line": c.line, "expected": format!("{:?}", exp)}));
                            }
                            Ok(())
                        }
                        Ok(None) => Ok(()),
                        Err((e, o)) => Err(Failure::new("helpoff-parse", Value::Null, format!("build without help: {}", e), o)),
                    }
                },
            );
        }
    }
    if let Some(f) = ctx.res.borrow_mut().failure.as_mut() {
        if f.check.starts_with("helpoff-parse") {
            f.check = "helpoff-parse".into();
        }
    }
    // the same crates, Tab: without help, completion of the declared names is what it is with help (C11's model); words that
    // are a prefix of `help` are left out - whether `help` takes part in completion without the facility is left open
    let per_decl = ctx.tier.pick(600u64, 3000u64);
    let mut gi = 0u64;
    for (bin, decls) in &set.crates {
        for d in decls {
            gi += 1;
            if !ctx.mine(gi) || ctx.failed() {
                continue;
            }
            let names = d.visible_names();
            ctx.run_prop(
                &format!("helpoff-tab-{}", gi),
                per_decl * ctx.nshards as u64,
                super::c11::macro_case_strategy(names.clone()),
                |c| {
                    let mut j = super::c11::tab_json(c);
                    j["decl"] = json!(d);
                    j
                },
                |c| {
                    let word = c.line.trim_matches(' ');
                    if !word.is_empty() && "help".starts_with(word) {
                        ctx.skipped();
                        return Ok(());
                    }
                    let reply = servers
                        .ask(bin, &json!({"d": d.id, "kind": "tab", "line": c.line, "cursor": c.cursor, "cap": c.cap, "prompt": c.prompt}))
                        .map_err(|e| Failure::new("helpoff-tab", Value::Null, "the process survives Tab", e))?;
                    match super::c11::judge_tab(c, &names, &super::c11::obs_from_reply(&reply)) {
                        Ok((nt, _)) => {
                            if nt {
                                ctx.class("help-off Tab cases (non-trivial by C11's rule)");
                                ctx.nontrivial(fingerprint(&("helpoff-tab", gi, &c.line, c.cursor, c.cap)), || super::c11::tab_json(c));
                            }
                            Ok(())
                        }
                        Err((e, o)) => Err(Failure::new("helpoff-tab", Value::Null, format!("build without help: {}", e), o)),
                    }
                },
            );
        }
    }
    if let Some(f) = ctx.res.borrow_mut().failure.as_mut() {
        if f.check.starts_with("helpoff-tab") {
            f.check = "helpoff-tab".into();
        }
    }
}

fn replay_help_off_tab(case: &Value) -> Verdict {
    use super::declcommon::{self, Servers};
    let fail = |e: String, o: String| Failure::new("helpoff-tab", case.clone(), e, o);
    let d: vmodel::decl::Decl = serde_json::from_value(case["decl"].clone()).map_err(|e| fail("a declaration model in the replay file".into(), e.to_string()))?;
    let c = super::c11::tab_from(case);
    let servers = Servers::new();
    let reply = servers
        .ask(&declcommon::replay_bin("C16"), &json!({"d": 0, "kind": "tab", "line": c.line, "cursor": c.cursor, "cap": c.cap, "prompt": c.prompt}))
        .map_err(|e| fail("the process survives Tab".into(), e))?;
    super::c11::judge_tab(&c, &d.visible_names(), &super::c11::obs_from_reply(&reply)).map(|_| ()).map_err(|(e, o)| fail(e, o))
}

fn replay_help_off(case: &Value) -> Verdict {
    use super::declcommon::{self, LineCase, Servers};
    let fail = |e: String, o: String| Failure::new("helpoff-parse", case.clone(), e, o);
    let mut d: vmodel::decl::Decl = serde_json::from_value(case["decl"].clone()).map_err(|e| fail("a declaration model in the replay file".into(), e.to_string()))?;
    d.id = 0;
    let c = LineCase {
        tokens: case["tokens"].as_array().map(|a| a.iter().map(|s| s.as_str().unwrap_or("").to_string()).collect()).unwrap_or_default(),
        line: case["line"].as_str().unwrap_or("").to_string(),
    };
    let servers = Servers::new();
    let reply = servers.ask(&declcommon::replay_bin("C16"), &json!({"d": 0, "kind": "line", "line": c.line})).map_err(|e| fail("the process survives the line".into(), e))?;
    super::c09::judge_opts(&d, &c, &reply, false).map(|_| ()).map_err(|(e, o)| fail(e, o))
}

fn replay(sub: &str, case: &Value) -> Verdict {
    if sub == "helpoff-parse" {
        return replay_help_off(case);
    }
    if sub == "helpoff-tab" {
        return replay_help_off_tab(case);
    }
    let c = case_from_json(case).map_err(|e| Failure::new(sub, case.clone(), "a well-formed case", e))?;
    let mut b = Builds::start().map_err(|e| Failure::new(sub, case.clone(), "feature builds present (run the check once, or setup.sh)", e))?;
    if sub == "feature-matrix-raw" {
        return run_raw_case(&mut b, &c).map(|_| ()).map_err(|(e, o)| Failure::new(sub, case.clone(), e, o));
    }
    run_case(&mut b, &c).map(|_| ()).map_err(|(e, o)| Failure::new(sub, case.clone(), e, o))
}
