//! Stage shared by C01, C06 and C15: the generated sessions on other shapes of the public API (`vmodel::sinkkinds`); each check
//! reports only the kind of difference that is its property's.
use proptest::prelude::*;
use serde_json::Value;
use vmodel::{
    engine::{fingerprint, Failure, ShardCtx, Verdict},
    lockstep::{self, GenOpts},
    sinkkinds::{self, Diff},
};

pub const SUB: &str = "api-shapes";

pub fn stage(ctx: &ShardCtx, total: u64, opts: GenOpts, sets: &'static [&'static str], which: Diff) {
    if ctx.failed() {
        return;
    }
    let n = std::cell::RefCell::new(0u64);
    let strat = prop_oneof![4 => lockstep::case_strategy(opts, sets), 1 => lockstep::tab_session_strategy(true)];
    ctx.run_prop(SUB, total, strat, lockstep::case_json, |c| match sinkkinds::run(c) {
        Ok(nt) => {
            if nt && !*ctx.stopped.borrow() {
                *n.borrow_mut() += 1;
                ctx.nontrivial(fingerprint(&(SUB, &c.cfg, &c.ops)), || lockstep::case_json(c));
            }
            Ok(())
        }
        Err((d, e, o)) if d == which => Err(Failure::new(SUB, lockstep::case_json(c), e, o)),
        // another property's business (reported by the check of that property)
        Err(_) => Ok(()),
    });
    ctx.class_n("api shapes (sink types, buffer kinds, builder orders): sessions with a dispatch", *n.borrow());
}

pub fn replay(case: &Value, which: Diff) -> Verdict {
    let c = lockstep::case_from_json(case).map_err(|e| Failure::new(SUB, case.clone(), "a well-formed case", e))?;
    match sinkkinds::run(&c) {
        Err((d, e, o)) if d == which => Err(Failure::new(SUB, case.clone(), e, o)),
        _ => Ok(()),
    }
}
