//! C13 — application output is framed on its own lines and never damages the input.

use std::path::Path;

use serde_json::Value;
use vmodel::engine::{ShardCtx, Tier, Verdict};

use super::{
    fuzzdrv,
    lockstep::{replay_lockstep, run_lockstep_shard, Flags, GenOpts},
    Check, PrepError, DEFAULT,
};

const FLAGS: Flags = Flags {
    dispatch: false,
    editor: false,
    screen: false,
    framing: true,
    flush: false,
    help_on: true,
    complete: false,
};

pub fn check() -> Check {
    Check {
        id: "C13",
        run_shard,
        prepare: Some(prepare),
        replay: |sub, case| -> Verdict { replay_lockstep(sub, case, FLAGS) },
        floor_quick: 2_000,
        floor_thorough: 50_000,
        rule: "Random sessions with handler scripts and Cli::write closures of 0-5 calls (write_str, writeln_str, uwrite! and write! with string and with char arguments; a handler may also print and then reject the command) whose texts mix printable words, LF, CR LF, empty and multi-byte pieces in any split (including a split inside CR LF), at random points (cursor anywhere), short-write sink on and off. \
               Oracle on bytes: between the submit's CR LF and the next prompt the sink receives the concatenated text with every LF as CR LF plus one CR LF iff the text is non-empty and does not end with LF (compared modulo runs of CR before LF); \
               oracle on the terminal emulator: the pieces each start at column 0 on their own rows, then the prompt (for Cli::write: prompt + line with the cursor at its old position) on the row below; the edited line and cursor are unchanged by Cli::write. \
               Non-trivial = the text contains an LF that is not its last byte, or the write happens with the cursor inside the line, or the text is split inside a CR LF; distinct by (calls, line, cursor). Evaluations count every API call (input byte, application write, prompt change) that was followed by the oracle, plus one per session; a coverage-guided campaign (libFuzzer + ASan, 16 processes, same oracle inside the target) searches the same session space and what it keeps is re-run and classified here. Output scripts also print through Writer::write_list_element and write_title: the text such a call stands for is observed (the call alone followed by a bar, through Cli::write on a fresh Cli), and the call must frame like write_str of that text; the layout itself is not judged.",
        assumptions: &[
            "CR not followed by LF, control/escape bytes and wide characters in application output are left open and not generated",
            "framing at Enter is compared only when the handler ran (no parse error raised before it, no help request); when the handler prints and then returns a parse error, the library's single `error:` line must follow the completed output on a line of its own (its wording is not pinned)",
        ],
        ..DEFAULT
    }
}

const SETS: &[&str] = &["raw", "raw", "raw", "enum", "group"];

fn opts(tier: Tier) -> GenOpts {
    GenOpts {
        writes: 14,
        set_prompts: 2,
        scripts: true,
        max_ops: tier.pick(30, 80),
        quotes: false,
    }
}

fn prepare(tier: Tier, seed: u64, _dir: &Path) -> Result<Value, PrepError> {
    fuzzdrv::prepare_lockstep("C13", "framing", "framing", opts(tier), SETS, tier, seed)
}

fn run_shard(ctx: &ShardCtx) {
    run_lockstep_shard(ctx, "framing", "C13", ctx.tier.pick(1_500_000, 15_000_000), opts(ctx.tier), SETS, FLAGS);
    // what the coverage-guided campaign (prepare) kept, re-run and classified in the plain harness build
    fuzzdrv::replay_lock_corpus(ctx, "C13", "framing", FLAGS);
}
