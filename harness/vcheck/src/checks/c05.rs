//! C05 — the line editor behaves as an ideal editor over Unicode scalar values.

use std::collections::{HashSet, VecDeque};

use embedded_cli::__verif::Editor;
use serde_json::{json, Value};
use vmodel::{
    engine::{fingerprint, Failure, ShardCtx, Tier, Verdict},
    refs::RefEditor,
    session::OwnedBuf,
};

use super::{
    fuzzdrv,
    lockstep::{replay_lockstep, run_lockstep_shard, Flags, GenOpts},
    Check, PrepError, DEFAULT,
};

const FLAGS: Flags = Flags {
    dispatch: false,
    editor: true,
    screen: false,
    framing: false,
    flush: false,
    help_on: true,
    complete: false,
};

pub fn check() -> Check {
    Check {
        id: "C05",
        run_shard,
        prepare: Some(prepare),
        replay,
        floor_quick: 5_000,
        floor_thorough: 100_000,
        rule: "G1: breadth-first closure of the ideal editor's states for command buffers of 0..=10 (quick) / 0..=13 (thorough) bytes over {a, e-acute, bitcoin sign, G-clef} and over lead-byte boundary characters {a, U+07EA, U+0E01, U+10000}; every (state, op) edge - insert of each character, two multi-character inserts (recall path), Backspace, Left, Right, delete-at-cursor, clear - \
               is replayed on a fresh real Editor and text, cursor, len() and every text_range() are compared. G2: random sessions through a whole Cli (as C01; recall and completion replace the model line by the observed one), line and cursor compared after every byte. \
               Non-trivial = the op acts strictly inside a line containing characters of at least two different encoded lengths, or is a rejected insertion; distinct by (line, cursor, op). Evaluations count every API call (input byte, application write, prompt change) that was followed by the oracle, plus one per session; a coverage-guided campaign (libFuzzer + ASan, 16 processes, same oracle inside the target) searches the same session space and what it keeps is re-run and classified here.",
        assumptions: &[
            "recall and completion replace the line; what they put there is decided by C10 / C11, the model adopts the observed line",
            "states are built on the real editor by one multi-character insert followed by Left moves",
        ],
        ..DEFAULT
    }
}

#[derive(Clone, Debug, PartialEq, Eq, Hash)]
enum EOp {
    Insert(String),
    Backspace,
    Left,
    Right,
    Delete,
    Clear,
}

fn ops(alphabet: usize) -> Vec<EOp> {
    // two alphabets: common characters of each length, and characters on the lead-byte boundaries (DF, E0, F0)
    let table: [&[&str]; 2] = [&["a", "é", "₿", "𝄞", "aé", "₿𝄞a"], &["a", "ߪ", "ก", "𐀀", "ࠀa", "\u{10fffd}ߪ"]];
    let mut v: Vec<EOp> = table[alphabet].iter().map(|s| EOp::Insert(s.to_string())).collect();
    v.extend([EOp::Backspace, EOp::Left, EOp::Right, EOp::Delete, EOp::Clear]);
    v
}

fn apply_model(m: &mut RefEditor, op: &EOp) -> bool {
    match op {
        EOp::Insert(s) => m.insert_str(s),
        EOp::Backspace => m.backspace(),
        EOp::Left => m.left(),
        EOp::Right => m.right(),
        EOp::Delete => m.delete(),
        EOp::Clear => {
            m.clear();
            true
        }
    }
}

fn sub_chars(text: &[char], from: usize, to: usize) -> String {
    if from >= text.len() || to <= from {
        return String::new();
    }
    text[from..to.min(text.len())].iter().collect()
}

fn check_edge(cap: usize, state: &RefEditor, op: &EOp) -> Result<(), (String, String)> {
    let mut e = Editor::new(OwnedBuf(vec![0u8; cap]));
    let text = state.string();
    if !text.is_empty() && e.insert(&text).is_none() {
        return Err((format!("a {}-byte buffer accepts {:?}", cap, text), "insert rejected".into()));
    }
    for _ in state.cursor..state.text.len() {
        e.move_left();
    }
    if e.text() != text || e.cursor() != state.cursor {
        return Err((format!("state {:?} cursor {}", text, state.cursor), format!("{:?} cursor {}", e.text(), e.cursor())));
    }
    let mut m = state.clone();
    let accepted = apply_model(&mut m, op);
    let real_accepted = match op {
        EOp::Insert(s) => {
            let r = e.insert(s).map(|x| x.to_string());
            if let Some(echo) = &r {
                if echo != s {
                    return Err((format!("insert returns the inserted text {:?}", s), format!("{:?}", echo)));
                }
            }
            r.is_some()
        }
        EOp::Backspace => {
            // as the Cli does it
            if e.move_left() {
                e.remove();
                true
            } else {
                false
            }
        }
        EOp::Left => e.move_left(),
        EOp::Right => e.move_right(),
        EOp::Delete => {
            let before = e.text().len();
            e.remove();
            e.text().len() != before
        }
        EOp::Clear => {
            e.clear();
            true
        }
    };
    let (raw, cur, _) = e.verif_raw();
    if core::str::from_utf8(raw).is_err() {
        return Err(("line is well-formed UTF-8".into(), format!("{:02x?}", raw)));
    }
    if real_accepted != accepted || e.text() != m.string() || cur != m.cursor || e.len() != m.text.len() {
        return Err((
            format!("{:?} cursor {} len {} (op {})", m.string(), m.cursor, m.text.len(), if accepted { "accepted" } else { "rejected: nothing changes" }),
            format!("{:?} cursor {} len {} (op {})", e.text(), cur, e.len(), if real_accepted { "accepted" } else { "rejected" }),
        ));
    }
    // text_range agrees with the model for every range
    let n = m.text.len();
    for a in 0..=n + 1 {
        for b in 0..=n + 1 {
            let want = sub_chars(&m.text, a, b);
            let got = e.text_range(a..b);
            if got != want {
                return Err((format!("text_range({}..{}) = {:?} on {:?}", a, b, want, m.string()), format!("{:?}", got)));
            }
            let want = sub_chars(&m.text, a, b + 1);
            let got = e.text_range(a..=b);
            if b >= a && got != want {
                return Err((format!("text_range({}..={}) = {:?} on {:?}", a, b, want, m.string()), format!("{:?}", got)));
            }
        }
        let want = sub_chars(&m.text, a, n);
        if e.text_range(a..) != want {
            return Err((format!("text_range({}..) = {:?} on {:?}", a, want, m.string()), format!("{:?}", e.text_range(a..))));
        }
        let want = sub_chars(&m.text, 0, a);
        if e.text_range(..a) != want {
            return Err((format!("text_range(..{}) = {:?} on {:?}", a, want, m.string()), format!("{:?}", e.text_range(..a))));
        }
    }
    if e.text_range(..) != m.string() {
        return Err((format!("text_range(..) = {:?}", m.string()), format!("{:?}", e.text_range(..))));
    }
    Ok(())
}

fn edge_json(cap: usize, st: &RefEditor, op: &EOp) -> Value {
    json!({"cmd_buf": cap, "line": st.string(), "cursor": st.cursor, "op": format!("{:?}", op), "op_code": op_code(op)})
}

fn op_code(op: &EOp) -> Value {
    match op {
        EOp::Insert(s) => json!({"insert": s}),
        EOp::Backspace => json!("backspace"),
        EOp::Left => json!("left"),
        EOp::Right => json!("right"),
        EOp::Delete => json!("delete"),
        EOp::Clear => json!("clear"),
    }
}

fn run_shard(ctx: &ShardCtx) {
    let max_cap = ctx.tier.pick(10usize, 13usize);
    let mut idx = 0u64;
    let mut states_total = 0u64;
    'caps: for (alphabet, cap) in (0..=max_cap).map(|c| (0usize, c)).chain((0..=max_cap.saturating_sub(1)).map(|c| (1usize, c))) {
        let all_ops = ops(alphabet);
        // BFS over model states (every shard walks the same closure and checks its share of edges)
        let mut seen: HashSet<RefEditor> = HashSet::new();
        let mut queue: VecDeque<RefEditor> = VecDeque::new();
        let start = RefEditor::new(cap);
        seen.insert(start.clone());
        queue.push_back(start);
        while let Some(st) = queue.pop_front() {
            states_total += 1;
            for op in &all_ops {
                let mut next = st.clone();
                let accepted = apply_model(&mut next, op);
                if seen.insert(next.clone()) {
                    queue.push_back(next);
                }
                idx += 1;
                if !ctx.mine(idx) {
                    continue;
                }
                ctx.count_eval();
                if ctx.trace_file.is_some() {
                    ctx.trace(&json!({"check": "editor-closure", "case": edge_json(cap, &st, op)}));
                }
                if let Err((e, o)) = check_edge(cap, &st, op) {
                    ctx.fail(Failure::new("editor-closure", edge_json(cap, &st, op), format!("{:?} on {:?} cursor {} ({}-byte buffer): {}", op, st.string(), st.cursor, cap, e), o));
                    break 'caps;
                }
                let mut lens = [false; 5];
                for c in st.text.iter() {
                    lens[c.len_utf8()] = true;
                }
                let mixed = lens.iter().filter(|x| **x).count() >= 2;
                let inside = st.cursor > 0 && st.cursor < st.text.len();
                let rejection = matches!(op, EOp::Insert(_)) && !accepted;
                if (mixed && inside && !matches!(op, EOp::Clear)) || rejection {
                    ctx.nontrivial(fingerprint(&(cap, &st, op)), || edge_json(cap, &st, op));
                }
            }
        }
    }
    ctx.exhaustive(&format!("state-space closure of the editor for buffers of 0..={} bytes over 4 characters", max_cap), !ctx.failed());
    if ctx.shard == 0 {
        ctx.class_n("closure:states", states_total);
    }
    let enumerated = ctx.res.borrow().evaluations;
    ctx.class_n("closure:edges checked", enumerated);

    run_lockstep_shard(ctx, "editor-session", "C05", ctx.tier.pick(1_500_000, 15_000_000), opts(ctx.tier), SETS, FLAGS);
    // what the coverage-guided campaign (prepare) kept, re-run and classified in the plain harness build
    fuzzdrv::replay_lock_corpus(ctx, "C05", "editor-session", FLAGS);
    // the same sessions on the library as users build it (no verif-hooks), against the hooked build
    super::hookfree::stage(ctx, ctx.tier.pick(60_000, 1_000_000), opts(ctx.tier), SETS);
}

const SETS: &[&str] = &["raw", "raw", "enum", "group"];

fn opts(tier: Tier) -> GenOpts {
    GenOpts {
        writes: 2,
        set_prompts: 2,
        scripts: true,
        max_ops: tier.pick(50, 120),
        quotes: true,
    }
}

fn prepare(tier: Tier, seed: u64, _dir: &std::path::Path) -> Result<Value, PrepError> {
    super::hookfree::build().map_err(PrepError::Inconclusive)?;
    fuzzdrv::prepare_lockstep("C05", "editor-session", "editor", opts(tier), SETS, tier, seed)
}

fn replay(sub: &str, case: &Value) -> Verdict {
    if sub == super::hookfree::SUB {
        return super::hookfree::replay(case);
    }
    if sub == "editor-closure" {
        let cap = case["cmd_buf"].as_u64().unwrap_or(0) as usize;
        let mut st = RefEditor::new(cap);
        st.set_with_cursor(case["line"].as_str().unwrap_or(""), case["cursor"].as_u64().unwrap_or(0) as usize);
        let op = match &case["op_code"] {
            Value::String(s) => match s.as_str() {
                "backspace" => EOp::Backspace,
                "left" => EOp::Left,
                "right" => EOp::Right,
                "delete" => EOp::Delete,
                _ => EOp::Clear,
            },
            v => EOp::Insert(v["insert"].as_str().unwrap_or("").to_string()),
        };
        check_edge(cap, &st, &op).map_err(|(e, o)| Failure::new(sub, case.clone(), e, o))
    } else {
        replay_lockstep(sub, case, FLAGS)
    }
}
