//! C08 — arguments are classified as `--`, long option, short-option cluster or value.

use embedded_cli::{
    __verif::Tokens,
    arguments::{Arg, ArgList},
};
use proptest::prelude::*;
use serde_json::{json, Value};
use vmodel::{
    engine::{fingerprint, Failure, ShardCtx, Verdict},
    refs::{quote_token, ref_classify, RArg},
    session::{Config, RawSet, Sess},
};

use super::{common::pick, Check, DEFAULT};

pub fn check() -> Check {
    Check {
        id: "C08",
        run_shard,
        replay,
        prepare: Some(prepare),
        floor_quick: 20_000,
        floor_thorough: 1_000_000,
        rule: "G1: every token list of length <= 3 over all tokens of <= 3 symbols, of length <= 2 over all tokens of <= 4 symbols (thorough: <= 5 symbols) and of length <= 4 over all tokens of <= 2 symbols \
               from {dash, a, e-acute, bitcoin sign, G-clef, space} plus the empty token, classified by ArgList (built from the NUL-joined raw form, independent of the tokenizer) and compared with a reference classifier; \
               the same over the length-boundary characters U+07FF, U+0800, U+FFFF, U+10000, U+10FFFD; every scalar value U+0001..U+10FFFF alone, leading, after one and two dashes and inside a cluster; lists of 254..513 (thorough: also 65534..65537) tokens and clusters of that many options; for every enumerated and random list the iterator driven through skip / nth / fold / count / last after k plain next() calls agrees with the plain loop; a coverage-guided campaign (libFuzzer + ASan, same dictionary as C07) with the reference classifier inside the target; G2: random lists of up to 12 tokens, both through ArgList and typed (quoted) through a whole Cli to the handler. The iterator must also be fused. \
               Non-trivial = the list contains `--`, a cluster with a multi-byte character, `-` alone, an empty token or a token starting with three dashes; distinct by list content.",
        assumptions: &[
            "tokens contain no NUL (NUL is the internal separator and cannot be typed)",
            "re-joining law: equality with the reference classification implies that re-joining the items (cluster members back into one token) reproduces the token list, because the reference classifier is injective up to cluster boundaries",
        ],
        ..DEFAULT
    }
}

fn nontrivial(list: &[String]) -> bool {
    list.iter().any(|t| {
        t == "--"
            || t == "-"
            || t.is_empty()
            || t.starts_with("---")
            || (t.starts_with('-') && !t.starts_with("--") && t.chars().skip(1).any(|c| c.len_utf8() > 1))
    })
}

fn real_classify(list: &[String]) -> Result<Vec<RArg>, String> {
    let raw = list.join("\0");
    let tokens = Tokens::from_raw(&raw, list.is_empty());
    let args = ArgList::new(tokens);
    let mut it = args.args();
    let mut out = Vec::new();
    for a in &mut it {
        out.push(match a {
            Arg::DoubleDash => RArg::DoubleDash,
            Arg::LongOption(n) => RArg::Long(n.to_string()),
            Arg::ShortOption(c) => {
                if char::from_u32(c as u32).is_none() {
                    return Err(format!("short option {:#x} is not a scalar value", c as u32));
                }
                RArg::Short(c)
            }
            Arg::Value(v) => RArg::Value(v.to_string()),
        });
        // (an item consumes at least one byte of the raw text or one token: more items than that means it never ends)
        if out.len() > raw.len() + list.len() + 16 {
            return Err("iterator does not terminate".into());
        }
    }
    if it.next().is_some() || it.next().is_some() {
        return Err("iterator yields items after returning None (not fused)".into());
    }
    Ok(out)
}

fn conv(a: Arg<'_>) -> RArg {
    match a {
        Arg::DoubleDash => RArg::DoubleDash,
        Arg::LongOption(n) => RArg::Long(n.to_string()),
        Arg::ShortOption(c) => RArg::Short(c),
        Arg::Value(v) => RArg::Value(v.to_string()),
    }
}

/// The classification is what the iterator yields, however it is driven: `nth`, `skip`, `fold` / `for_each`, `count`, `last`
/// after k plain `next()` calls (also k in the middle of a cluster, or just behind `--`) must agree with the plain loop.
fn idioms_agree(list: &[String], base: &[RArg]) -> Result<(), (String, String)> {
    let raw = list.join("\0");
    let args = ArgList::new(Tokens::from_raw(&raw, list.is_empty()));
    for k in 0..=base.len().min(5) {
        let rest = &base[k..];
        let skipped: Vec<RArg> = args.args().skip(k).map(conv).collect();
        if skipped != rest {
            return Err((format!("args().skip({}) yields {:?}", k, rest), format!("{:?}", skipped)));
        }
        let nth = args.args().nth(k).map(conv);
        if nth.as_ref() != base.get(k) {
            return Err((format!("args().nth({}) is {:?}", k, base.get(k)), format!("{:?}", nth)));
        }
        let mut it = args.args();
        for _ in 0..k {
            it.next();
        }
        let folded: Vec<RArg> = it.fold(Vec::new(), |mut v, a| {
            v.push(conv(a));
            v
        });
        if folded != rest {
            return Err((format!("{} x next() then fold yields {:?}", k, rest), format!("{:?}", folded)));
        }
        let mut it = args.args();
        for _ in 0..k {
            it.next();
        }
        let count = it.count();
        let mut it = args.args();
        for _ in 0..k {
            it.next();
        }
        let last = it.last().map(conv);
        if count != rest.len() || last.as_ref() != rest.last() {
            return Err((format!("{} x next() then count() = {}, last() = {:?}", k, rest.len(), rest.last()), format!("count {} last {:?}", count, last)));
        }
    }
    Ok(())
}

fn compare(list: &[String]) -> Result<(), (String, String)> {
    let exp = ref_classify(list);
    match real_classify(list) {
        Ok(got) if got == exp => idioms_agree(list, &got),
        Ok(got) => Err((format!("{:?}", exp), format!("{:?}", got))),
        Err(e) => Err((format!("{:?}", exp), e)),
    }
}

fn check_list(sub: &str, list: &[String]) -> Verdict {
    compare(list).map_err(|(e, o)| Failure::new(sub, json!({"tokens": list}), format!("classification of {:?}: {}", list, e), o))
}

fn check_cli(list: &[String]) -> Verdict {
    let case = || json!({"tokens": list});
    let cfg = Config {
        cmd_buf: 2048,
        hist_buf: 0,
        ..Config::default()
    };
    let (s, _) = Sess::<RawSet>::new(&cfg, None);
    let mut s = s.map_err(|e| Failure::new("classify-cli", case(), "construction succeeds", format!("{:?}", e)))?;
    let mut line = String::from("x");
    for t in list {
        line.push(' ');
        line.push_str(&quote_token(t, false));
    }
    line.push('\r');
    for &b in line.as_bytes() {
        s.byte(b).map_err(|e| Failure::new("classify-cli", case(), "Ok", format!("{:?}", e)))?;
    }
    // the same list typed with every dash written as `\-` inside quotes: that escape is one the quoting rules leave open
    // (it stands for `-` or for `\-`), but whichever reading the tokeniser takes, the classification must follow it
    if list.iter().any(|t| t.contains('-')) && list.len() % 2 == 1 {
        let (s2, _) = Sess::<RawSet>::new(&cfg, None);
        let mut s2 = s2.map_err(|e| Failure::new("classify-cli", case(), "construction succeeds", format!("{:?}", e)))?;
        let mut l2 = String::from("x");
        for t in list {
            l2.push_str(" \"");
            for c in t.chars() {
                if c == '"' || c == '\\' || c == '-' {
                    l2.push('\\');
                }
                l2.push(c);
            }
            l2.push('"');
        }
        for &b in l2.as_bytes() {
            s2.byte(b).map_err(|e| Failure::new("classify-cli", case(), "Ok", format!("{:?}", e)))?;
        }
        s2.byte(b'\r').map_err(|e| Failure::new("classify-cli", case(), "Ok", format!("{:?}", e)))?;
        let d = super::lockstep::expected_dispatch(&l2, true);
        super::lockstep::check_dispatch(&d, &s2.proc_.log, "Enter", &l2).map_err(|(e, o)| Failure::new("classify-cli", case(), e, o))?;
    }
    let exp = ref_classify(list);
    // a help request is answered by the library (C12); nothing to compare then
    let mut toks = vec!["x".to_string()];
    toks.extend(list.iter().cloned());
    if vmodel::refs::is_help_request(&toks) != Some(false) {
        return Ok(());
    }
    let log = &s.proc_.log;
    let got: Option<Vec<RArg>> = log.first().and_then(|c| c.args.iter().map(|a| a.to_ref()).collect());
    if log.len() != 1 || log[0].name != b"x" || got.as_ref() != Some(&exp) {
        return Err(Failure::new(
            "classify-cli",
            case(),
            format!("handler sees name x and {:?} for line {:?}", exp, line),
            format!("{:?}", log),
        ));
    }
    Ok(())
}

fn all_tokens(max_syms: u32) -> Vec<String> {
    all_tokens_over(&["-", "a", "é", "₿", "𝄞", " "], max_syms)
}

fn all_tokens_over(syms: &[&str], max_syms: u32) -> Vec<String> {
    let k = syms.len() as u64;
    let mut out = vec![String::new()];
    for len in 1..=max_syms {
        for code in 0..k.pow(len) {
            let mut t = String::new();
            let mut c = code;
            for _ in 0..len {
                t.push_str(syms[(c % k) as usize]);
                c /= k;
            }
            out.push(t);
        }
    }
    out
}

fn enumerate(ctx: &ShardCtx, toks: &[String], max_len: u32, idx: &mut u64) {
    let n = toks.len() as u64;
    for len in 0..=max_len {
        for code in 0..n.pow(len) {
            *idx += 1;
            if !ctx.mine(*idx) {
                continue;
            }
            let mut list = Vec::with_capacity(len as usize);
            let mut c = code;
            for _ in 0..len {
                list.push(toks[(c % n) as usize].clone());
                c /= n;
            }
            ctx.count_eval();
            match compare(&list) {
                Ok(()) => {
                    if nontrivial(&list) {
                        ctx.nontrivial_enum(|| json!({"tokens": list}));
                    }
                }
                Err((e, o)) => {
                    ctx.fail(Failure::new("classify-enum", json!({"tokens": list}), format!("classification of {:?}: {}", list, e), o));
                    return;
                }
            }
        }
    }
}

fn token_strategy(typeable: bool) -> impl Strategy<Value = String> {
    let table: Vec<char> = vec!['-', '-', '-', '-', 'a', 'b', 'h', 'é', '₿', '𝄞', ' ', 'v', '\u{7ff}', '\u{800}', '\u{10fffd}'];
    let ch = prop_oneof![
        10 => any::<u16>().prop_map(move |s| pick(&table, s)),
        1 => any::<char>().prop_map(move |c| if c == '\0' || (typeable && (c < ' ' || c == '\x7f')) { 'Ω' } else { c }),
    ];
    // spellings that some parser would read as a number are tokens like any other: a dash in front makes them clusters
    let numberish = vec!["-5", "-1e3", "-inf", "-nan", "-infinity", "-NaN", "-0", "-.5", "-0x1f", "--5", "-1_000", "inf", "-INF"];
    prop_oneof![
        1 => Just("--".to_string()),
        1 => Just("-".to_string()),
        1 => Just(String::new()),
        1 => any::<u16>().prop_map(move |s| pick(&numberish, s).to_string()),
        10 => proptest::collection::vec(ch, 0..7).prop_map(|v| v.into_iter().collect()),
    ]
}

fn fuzz_case(d: &[u8]) -> Value {
    json!({"tokens": String::from_utf8_lossy(d).split('\u{1e}').map(|s| s.to_string()).collect::<Vec<_>>()})
}

/// Coverage-guided search with the reference classifier inside the target (tokens separated by U+001E in the input)
fn prepare(tier: vmodel::engine::Tier, seed: u64, _dir: &std::path::Path) -> Result<Value, super::PrepError> {
    let mut seeds: Vec<Vec<u8>> = Vec::new();
    for l in ["a\u{1e}-b\u{1e}--c", "--\u{1e}-x\u{1e}--", "-abc\u{1e}\u{1e}-", "-é₿\u{1e}val\u{1e}---x", "-5\u{1e}-1e3\u{1e}--no-color"] {
        seeds.push(l.as_bytes().to_vec());
    }
    super::fuzzdrv::prepare_fdiff("C08", "args", "classify-random", "text.dict", tier, seed, seeds, fuzz_case)
}

fn run_shard(ctx: &ShardCtx) {
    super::fuzzdrv::replay_fdiff_corpus(ctx, "C08", "args", "classify-random", fuzz_case);
    let mut idx = 0u64;
    let b = ctx.tier.pick(4u32, 5u32);
    enumerate(ctx, &all_tokens(3), 3, &mut idx);
    if !ctx.failed() {
        enumerate(ctx, &all_tokens(b), 2, &mut idx);
    }
    if !ctx.failed() {
        enumerate(ctx, &all_tokens(2), 4, &mut idx);
    }
    if !ctx.failed() {
        // characters on the boundaries of each encoded length (last 2-byte, first 3-byte, last 3-byte, first and last 4-byte lead)
        enumerate(ctx, &all_tokens_over(&["-", "a", "\u{7ff}", "\u{800}", "\u{ffff}", "\u{10000}", "\u{10fffd}"], 3), 2, &mut idx);
    }
    ctx.exhaustive(
        &format!("lists of <= 3 tokens of <= 3 symbols, lists of <= 2 tokens of <= {} symbols, lists of <= 4 tokens of <= 2 symbols; lists of <= 2 tokens of <= 3 symbols over length-boundary characters", b),
        !ctx.failed(),
    );
    // every scalar value in every position of a token that matters to the classification: alone, leading, after one dash,
    // after two dashes, inside a cluster (a scalar that is mistaken for a dash, or swallowed by one, shows here)
    if !ctx.failed() {
        let mut n = 0u64;
        for v in 0x01u32..=0x10FFFF {
            let Some(c) = char::from_u32(v) else { continue };
            idx += 1;
            if !ctx.mine(idx) {
                continue;
            }
            let lists = [
                vec![c.to_string(), format!("{}a", c)],
                vec![format!("-{}a", c), format!("--{}", c)],
                vec![format!("-a{}", c), format!("{}-", c), "--".to_string(), format!("-{}", c)],
            ];
            for list in lists.iter() {
                ctx.count_eval();
                n += 1;
                if let Err((e, o)) = compare(list) {
                    ctx.fail(Failure::new("classify-enum", json!({"tokens": list}), format!("classification of {:?} (U+{:04X}): {}", list, v, e), o));
                    break;
                }
            }
            if ctx.failed() {
                break;
            }
            if v % 4096 == 0x2d {
                ctx.nontrivial_enum(|| json!({"scalar": format!("U+{:04X}", v), "tokens": lists[1]}));
            }
        }
        ctx.class_n("all-scalar sweep (lists)", n);
        ctx.exhaustive("every scalar value (U+0001..U+10FFFF) alone, leading, after one and two dashes and inside a cluster", !ctx.failed());
    }
    // long lists and long clusters (counts beyond 255, and beyond 65535 in the thorough tier)
    if !ctx.failed() {
        let mut sizes: Vec<usize> = vec![254, 255, 256, 257, 258, 300, 511, 512, 513];
        if ctx.tier == vmodel::engine::Tier::Thorough {
            sizes.extend([65_534, 65_535, 65_536, 65_537]);
        }
        let pool = ["a", "-b", "--c", "", "-", "é", "--", "-xy"];
        for (si, n) in sizes.iter().enumerate() {
            if !ctx.mine(si as u64) {
                continue;
            }
            for variant in 0..3usize {
                let list: Vec<String> = match variant {
                    0 => (0..*n).map(|i| pool[(i * 7 + si) % pool.len()].to_string()).collect(),
                    1 => (0..*n).map(|i| format!("v{}", i)).collect(),
                    _ => vec![format!("-{}", "ab₿".repeat(*n / 3 + 1)), "tail".to_string()],
                };
                ctx.count_eval();
                let exp = ref_classify(&list);
                match real_classify(&list) {
                    Ok(got) if got == exp => ctx.nontrivial_enum(|| json!({"tokens_in_list": list.len(), "items": exp.len(), "first": list.first()})),
                    Ok(got) => {
                        let at = got.iter().zip(exp.iter()).position(|(a, b)| a != b).unwrap_or(got.len().min(exp.len()));
                        ctx.fail(Failure::new("classify-enum", json!({"tokens": list}), format!("{} items for a list of {} tokens (first difference at item {}: {:?})", exp.len(), list.len(), at, exp.get(at)), format!("{} items, there {:?}", got.len(), got.get(at))));
                    }
                    Err(e) => ctx.fail(Failure::new("classify-enum", json!({"tokens": list}), format!("{} items", exp.len()), e)),
                }
                if ctx.failed() {
                    break;
                }
            }
            if ctx.failed() {
                break;
            }
        }
    }
    let enumerated = ctx.res.borrow().evaluations;
    ctx.class_n("enumerated", enumerated);

    ctx.run_prop(
        "classify-random",
        ctx.tier.pick(4_000_000, 30_000_000),
        proptest::collection::vec(token_strategy(false), 0..12),
        |l| json!({"tokens": l}),
        |list| {
            let r = check_list("classify-random", list);
            if r.is_ok() && nontrivial(list) {
                ctx.class("random:nontrivial");
                ctx.nontrivial(fingerprint(list), || json!({"tokens": list}));
            }
            r
        },
    );
    ctx.run_prop(
        "classify-cli",
        ctx.tier.pick(200_000, 2_000_000),
        proptest::collection::vec(token_strategy(true), 0..12),
        |l| json!({"tokens": l}),
        |list| {
            let r = check_cli(list);
            if r.is_ok() && nontrivial(list) {
                ctx.class("cli:nontrivial");
                ctx.nontrivial(fingerprint(&("cli", list)), || json!({"typed_tokens": list}));
            }
            r
        },
    );
}

fn replay(sub: &str, case: &Value) -> Verdict {
    let list: Vec<String> = case["tokens"]
        .as_array()
        .map(|a| a.iter().map(|s| s.as_str().unwrap_or("").to_string()).collect())
        .unwrap_or_default();
    if sub == "classify-cli" {
        check_cli(&list)
    } else {
        check_list(sub, &list)
    }
}
