//! C02 — all text handed out is well-formed UTF-8, whatever bytes arrive.

use proptest::prelude::*;
use serde_json::{json, Value};
use vmodel::{
    engine::{fingerprint, Failure, ShardCtx, Verdict},
    refs::{Key, RefDecoder},
    session::{CmdSet, Config, EnumSet, GroupSet, LArg, Op, OutCall, RawSet, Sess},
};

use super::{
    common::{bytes_json, case_bytes, hex, real_decode},
    Check, DEFAULT,
};

pub fn check() -> Check {
    Check {
        id: "C02",
        run_shard,
        replay,
        floor_quick: 1_000_000,
        floor_thorough: 100_000_000,
        rule: "G1: every sequence of 1-3 bytes >= 0x80 plus every 4-byte sequence over the 24 boundary bytes of Unicode table 3-7 (quick) / every sequence of 1-4 bytes >= 0x80, 270,549,120 in all (thorough), \
               each followed by the sentinels 'Z' and e-acute, fed to a fresh InputGenerator: every Char payload must be exactly one well-formed scalar, the emitted characters must equal the valid chunks under std's decoder \
               (errors dropped; with bytes F8-FF present: the reference output must be a subsequence of the actual output), and both sentinels must be accepted. \
               G2: random byte streams over 0..=255 except DEL (well-formed characters, malformed fragments - overlong, surrogate, > U+10FFFF, truncated, stray continuation, F8-FF - and keys) through a whole Cli with small buffers, \
               Cli::write and set_prompt interleaved: every handler string and option char, the editor bytes and every history entry after every byte, and the entire sink stream must be well-formed UTF-8. \
               Non-trivial = the sequence contains at least one ill-formed subsequence (G2: followed later by Enter, recall or a redraw); distinct by byte content. G1u: every concatenation of up to 3 (thorough 4) of 36 boundary units - the first and last character of every lead octet's range, the ill-formed sequences next to them, sequences cut short, stray continuation octets, F8/FF, a printable character - decoded and compared like G1 (what the decoder remembers of one character may not excuse the next sequence).",
        assumptions: &[
            "DEL (0x7F) is never generated: its treatment is left open",
            "equivalence of 'lead byte restarts, continuation bytes cannot start a character' decoders with std's maximal-subpart decoding, for the emitted characters, is argued in DESIGN 6/C02; bytes F8-FF are only required not to lose reference characters",
        ],
        ..DEFAULT
    }
}

const BOUNDARY: [u8; 24] = [
    0x80, 0x8F, 0x90, 0x9F, 0xA0, 0xBF, 0xC0, 0xC1, 0xC2, 0xDF, 0xE0, 0xE1, 0xEC, 0xED, 0xEE, 0xEF, 0xF0, 0xF1, 0xF3, 0xF4, 0xF5, 0xF7, 0xF8, 0xFF,
];

fn is_subsequence(small: &[Key], big: &[Key]) -> bool {
    let mut it = big.iter();
    small.iter().all(|k| it.any(|b| b == k))
}

/// Ok(ill_formed?) or Err(expected, observed)
fn compare_high(seq: &[u8]) -> Result<bool, (String, String)> {
    let mut stream = seq.to_vec();
    stream.extend_from_slice("Zé".as_bytes());
    let got = real_decode(&stream).map_err(|e| ("every Char payload is exactly one well-formed scalar".to_string(), e))?;
    let (exp, _) = RefDecoder::decode_all(&stream);
    for (_, k) in &got {
        if let Key::Char(c) = k {
            if (*c as u32) < 0x20 {
                return Err(("characters >= U+0020 only".into(), format!("{:?}", k)));
            }
        }
    }
    let has_f8 = seq.iter().any(|b| *b >= 0xF8);
    if !has_f8 {
        if got != exp {
            return Err((format!("{:?}", exp), format!("{:?}", got)));
        }
    } else {
        let g: Vec<Key> = got.iter().map(|x| x.1).collect();
        let e: Vec<Key> = exp.iter().map(|x| x.1).collect();
        if !is_subsequence(&e, &g) {
            return Err((format!("a supersequence of {:?}", e), format!("{:?}", g)));
        }
    }
    let n = got.len();
    if n < 2 || got[n - 2].1 != Key::Char('Z') || got[n - 1].1 != Key::Char('é') {
        return Err(("the sentinels Z and é that follow are accepted".into(), format!("{:?}", got)));
    }
    Ok(core::str::from_utf8(seq).is_err())
}

/// Units for the concatenation sweep: the first and last character of every lead octet's range whose validity depends on
/// the second octet (E0, ED, F0, F4) and of the plain ranges, the ill-formed sequences next to them, pieces cut short, stray
/// octets. (No control bytes: a control inside a would-be character is a zone C04 leaves open - the pinned decoder does not
/// let it end the sequence, `E0 A0 0D 80` gives Enter and then U+0800.)
fn concat_units() -> Vec<Vec<u8>> {
    let mut u: Vec<Vec<u8>> = Vec::new();
    for c in ['\u{80}', '\u{7ff}', '\u{800}', '\u{fff}', '\u{1000}', '\u{cfff}', '\u{d000}', '\u{d7ff}', '\u{e000}', '\u{ffff}', '\u{10000}', '\u{3ffff}', '\u{40000}', '\u{fffff}', '\u{100000}', '\u{10ffff}', 'a'] {
        u.push(c.to_string().into_bytes());
    }
    for f in [
        &[0xC0u8, 0x80][..], &[0xC1, 0xBF], &[0xE0, 0x80, 0x80], &[0xE0, 0x9F, 0xBF], &[0xED, 0xA0, 0x80], &[0xED, 0xBF, 0xBF], &[0xF0, 0x80, 0x80, 0x80], &[0xF0, 0x8F, 0xBF, 0xBF], &[0xF4, 0x90, 0x80, 0x80],
        &[0xF4, 0xBF, 0xBF, 0xBF], &[0xF5, 0x80, 0x80, 0x80], &[0xE0, 0xA0], &[0xED, 0x9F], &[0xF0, 0x90, 0x80], &[0xF4, 0x8F], &[0xC2], &[0x80], &[0xBF], &[0xF8], &[0xFF],
    ] {
        u.push(f.to_vec());
    }
    u
}

fn check_high(sub: &str, seq: &[u8]) -> Verdict {
    compare_high(seq)
        .map(|_| ())
        .map_err(|(e, o)| Failure::new(sub, bytes_json(seq), format!("decoding {} then 'Z' 'é': {}", hex(seq), e), o))
}

// --- G2

fn malformed_fragment() -> impl Strategy<Value = Vec<u8>> {
    prop_oneof![
        // overlong
        Just(vec![0xC0, 0x80]),
        Just(vec![0xC1, 0xBF]),
        Just(vec![0xE0, 0x80, 0x80]),
        Just(vec![0xE0, 0x9F, 0xBF]),
        Just(vec![0xF0, 0x80, 0x80, 0x80]),
        Just(vec![0xF0, 0x8F, 0xBF, 0xBF]),
        // surrogates
        Just(vec![0xED, 0xA0, 0x80]),
        Just(vec![0xED, 0xBF, 0xBF]),
        Just(vec![0xED, 0xAD, 0xBF, 0xED, 0xB0, 0x80]),
        // > U+10FFFF
        Just(vec![0xF4, 0x90, 0x80, 0x80]),
        Just(vec![0xF7, 0xBF, 0xBF, 0xBF]),
        Just(vec![0xF5, 0x80, 0x80, 0x80]),
        // truncated
        Just(vec![0xC3]),
        Just(vec![0xE2, 0x82]),
        Just(vec![0xF0, 0x9D, 0x84]),
        Just(vec![0xE2]),
        // stray continuation
        Just(vec![0x80]),
        Just(vec![0xBF, 0xBF]),
        Just(vec![0xA9]),
        // F8-FF
        Just(vec![0xF8]),
        Just(vec![0xFF]),
        Just(vec![0xFE, 0xFF]),
        Just(vec![0xFB, 0xBF, 0xBF, 0xBF, 0xBF]),
        // anything high
        proptest::collection::vec(0x80u8..=0xFF, 1..5),
    ]
}

fn op_strategy() -> impl Strategy<Value = Op> {
    let chars = vec!['a', 'b', ' ', '-', '"', '\\', 'h', 'e', 'l', 'p', 'g', 't', 'é', 'Ж', '₿', '𝄞', 'à', 'х', 'Р', '\u{80}', '\u{7ff}', '\u{800}', '\u{ffff}', '\u{10000}', '\u{10ffff}'];
    let texts = vec!["get-led ", "help ", "set ", "--", " -", "эхо ", "-v", "exit", "net up ", "с", "ст", "стар"];
    prop_oneof![
        30 => any::<u16>().prop_map(move |s| Op::Char(super::common::pick(&chars, s))),
        5 => any::<u16>().prop_map(move |s| Op::Text(super::common::pick(&texts, s).to_string())),
        25 => malformed_fragment().prop_map(Op::Raw),
        // keys
        8 => Just(Op::Enter),
        5 => Just(Op::Backspace),
        5 => Just(Op::Left),
        3 => Just(Op::Right),
        5 => Just(Op::Up),
        2 => Just(Op::Down),
        4 => Just(Op::Tab),
        2 => proptest::collection::vec(0u8..0x20, 1..3).prop_map(Op::Raw),
        3 => (0usize..5).prop_map(Op::SetPrompt),
        3 => Just(Op::Write(vec![OutCall::WriteStr("out".into())])),
    ]
}

#[derive(Clone, Debug)]
struct Case {
    cfg: Config,
    ops: Vec<Op>,
}

fn case_strategy() -> impl Strategy<Value = Case> {
    let sizes = prop_oneof![Just(0usize), Just(1), Just(2), Just(3), Just(4), Just(5), Just(6), Just(8), Just(12), Just(16), Just(32), Just(64)];
    (
        sizes.clone(),
        sizes,
        0usize..5,
        prop_oneof![Just("raw"), Just("enum"), Just("group")],
        any::<bool>(),
        0u8..4,
        proptest::collection::vec(op_strategy(), 1..60),
    )
        .prop_map(|(cb, hb, p, set, sw, es, ops)| Case {
            cfg: Config {
                cmd_buf: cb,
                hist_buf: hb,
                prompt: p,
                set: set.to_string(),
                scripts: vec![vec![OutCall::WriteStr("r".into())]],
                short_writes: sw,
                enter_style: es,
                use_new: false,
                arrow_params: false,
                other_set: false,
            },
            ops,
        })
}

fn case_json(c: &Case) -> Value {
    json!({"cfg": c.cfg, "ops": c.ops})
}

fn valid(what: &str, b: &[u8]) -> Result<(), (String, String)> {
    if core::str::from_utf8(b).is_err() {
        return Err((format!("{} is well-formed UTF-8", what), format!("bytes {} ({:?})", hex(b), String::from_utf8_lossy(b))));
    }
    Ok(())
}

/// returns whether the session is non-trivial
fn run_stream<S: CmdSet>(c: &Case) -> Result<bool, (String, String)> {
    let (s, _) = Sess::<S>::new(&c.cfg, None);
    let mut s = s.map_err(|e| ("construction succeeds".to_string(), format!("{:?}", e)))?;
    let mut seen_malformed = false;
    let mut nontrivial = false;
    let mut seen_calls = 0;
    for (oi, op) in c.ops.iter().enumerate() {
        let res = match op {
            Op::Write(calls) => s.write(calls),
            Op::SetPrompt(i) => s.set_prompt(*i),
            _ => {
                let bytes = op.encode(&c.cfg, s.last_byte);
                let mut r = Ok(());
                for b in bytes {
                    if b == 0x7F {
                        continue;
                    }
                    r = s.byte(b);
                    if r.is_err() {
                        break;
                    }
                    let ev = s.editor();
                    valid(&format!("the edited line after op #{} ({:?})", oi, op), &ev.bytes)?;
                    let hv = s.history();
                    match hv.entries() {
                        Some(es) => {
                            for e in es {
                                valid(&format!("history entry after op #{}", oi), &e)?;
                            }
                        }
                        None => return Err(("history buffer is a sequence of NUL-terminated entries".into(), format!("{:?}", hv))),
                    }
                }
                r
            }
        };
        if let Err(e) = res {
            return Err(("Ok (working sink)".into(), format!("{:?} at op #{}", e, oi)));
        }
        if let Op::Raw(b) = op {
            if b.iter().any(|x| *x >= 0x80) {
                seen_malformed = true;
            }
        }
        if seen_malformed && matches!(op, Op::Enter | Op::Up | Op::Down | Op::Write(_) | Op::SetPrompt(_)) {
            nontrivial = true;
        }
        for call in &s.proc_.log[seen_calls..] {
            valid("the command name given to the handler", &call.name)?;
            for a in &call.args {
                match a {
                    LArg::Long(b) => valid("a long option name given to the handler", b)?,
                    LArg::Value(b) => valid("a value given to the handler", b)?,
                    LArg::Short(u) => {
                        if char::from_u32(*u).is_none() {
                            return Err(("short option is a Unicode scalar value".into(), format!("{:#x}", u)));
                        }
                    }
                    LArg::DoubleDash => {}
                }
            }
        }
        seen_calls = s.proc_.log.len();
    }
    let out = s.out_from(0);
    valid("the whole sink stream (echo, redraws, errors, help)", &out)?;
    Ok(nontrivial)
}

fn run_case(c: &Case) -> Result<bool, (String, String)> {
    match c.cfg.set.as_str() {
        "enum" => run_stream::<EnumSet>(c),
        "group" => run_stream::<GroupSet>(c),
        _ => run_stream::<RawSet>(c),
    }
}

fn run_shard(ctx: &ShardCtx) {
    // G1
    let mut idx = 0u64;
    let thorough = ctx.tier.pick(false, true);
    let mut go = |seq: &[u8]| -> bool {
        idx += 1;
        if !ctx.mine(idx) {
            return true;
        }
        ctx.count_eval();
        match compare_high(seq) {
            Ok(ill) => {
                if ill {
                    ctx.nontrivial_enum(|| bytes_json(seq));
                }
                true
            }
            Err((e, o)) => {
                ctx.fail(Failure::new("high-enum", bytes_json(seq), format!("decoding {} then 'Z' 'é': {}", hex(seq), e), o));
                false
            }
        }
    };
    'g1: {
        for a in 0x80u8..=0xFF {
            if !go(&[a]) {
                break 'g1;
            }
            for b in 0x80u8..=0xFF {
                if !go(&[a, b]) {
                    break 'g1;
                }
                for c in 0x80u8..=0xFF {
                    if !go(&[a, b, c]) {
                        break 'g1;
                    }
                    if thorough {
                        for d in 0x80u8..=0xFF {
                            if !go(&[a, b, c, d]) {
                                break 'g1;
                            }
                        }
                    }
                }
            }
        }
        // a printable ASCII character in the middle of a would-be sequence ends it: the bytes before it are dropped, the
        // character is accepted, the continuation bytes after it belong to nothing (all sequences of 2-3 high bytes)
        for a in 0x80u8..=0xFF {
            for b in 0x80u8..=0xFF {
                if !go(&[a, b'b', b]) {
                    break 'g1;
                }
                for c in 0x80u8..=0xFF {
                    if !go(&[a, b'b', b, c]) || !go(&[a, b, b'b', c]) {
                        break 'g1;
                    }
                }
            }
        }
        if !thorough {
            for a in BOUNDARY {
                for b in BOUNDARY {
                    for c in BOUNDARY {
                        for d in BOUNDARY {
                            if !go(&[a, b, c, d]) {
                                break 'g1;
                            }
                        }
                    }
                }
            }
        }
    }
    // what the decoder remembers of an earlier character may not excuse a later sequence: every concatenation of up to three
    // (thorough four) units, each a well-formed character on a boundary of its lead octet's range, an ill-formed fragment
    // (overlong, surrogate, beyond U+10FFFF, cut short, stray continuation, F8..FF), or a printable character
    'g1u: {
        if ctx.failed() {
            break 'g1u;
        }
        let units = concat_units();
        let depth = if thorough { 4 } else { 3 };
        let mut stack: Vec<usize> = Vec::new();
        let mut buf: Vec<u8> = Vec::new();
        // iterative enumeration of index vectors of length 1..=depth
        for len in 1..=depth {
            stack.clear();
            stack.resize(len, 0);
            loop {
                buf.clear();
                for &i in &stack {
                    buf.extend_from_slice(&units[i]);
                }
                if !go(&buf) {
                    break 'g1u;
                }
                let mut k = len;
                loop {
                    if k == 0 {
                        break;
                    }
                    k -= 1;
                    stack[k] += 1;
                    if stack[k] < units.len() {
                        break;
                    }
                    stack[k] = 0;
                    if k == 0 {
                        k = usize::MAX;
                        break;
                    }
                }
                if k == usize::MAX {
                    break;
                }
            }
        }
    }
    ctx.exhaustive(if thorough { "all concatenations of 1-4 boundary units (well-formed characters, ill-formed fragments)" } else { "all concatenations of 1-3 boundary units (well-formed characters, ill-formed fragments)" }, !ctx.failed());
    ctx.exhaustive(
        if thorough { "all sequences of 1-4 bytes >= 0x80; all sequences of 2-3 such bytes with a printable character inserted" } else { "all sequences of 1-3 bytes >= 0x80, the same with a printable character inserted, and all 4-byte sequences over 24 boundary bytes" },
        !ctx.failed(),
    );
    let enumerated = ctx.res.borrow().evaluations;
    ctx.class_n("enumerated", enumerated);

    // G2
    ctx.run_prop("stream-cli", ctx.tier.pick(3_000_000, 20_000_000), case_strategy(), case_json, |c| match run_case(c) {
        Ok(nt) => {
            if nt {
                ctx.class("cli:malformed followed by Enter/recall/redraw");
                ctx.nontrivial(fingerprint(&(&c.cfg, &c.ops)), || case_json(c));
            }
            Ok(())
        }
        Err((e, o)) => Err(Failure::new("stream-cli", Value::Null, e, o)),
    });
}

/// replay of a structured stream case (also used for C03 regressions in that form)
pub fn replay_stream(case: &Value) -> Verdict {
    replay("stream-cli", case)
}

fn replay(sub: &str, case: &Value) -> Verdict {
    if sub == "stream-cli" {
        let c = Case {
            cfg: serde_json::from_value(case["cfg"].clone()).map_err(|e| Failure::new(sub, case.clone(), "valid case", e.to_string()))?,
            ops: serde_json::from_value(case["ops"].clone()).map_err(|e| Failure::new(sub, case.clone(), "valid case", e.to_string()))?,
        };
        run_case(&c).map(|_| ()).map_err(|(e, o)| Failure::new(sub, case.clone(), e, o))
    } else {
        check_high(sub, &case_bytes(case))
    }
}
