//! C14 — a failing output sink is reported, never panics and never corrupts the session.

use proptest::prelude::*;
use serde_json::{json, Value};
use vmodel::{
    engine::{fingerprint, Failure, ShardCtx, Verdict},
    refs::RefEditor,
    session::{CmdSet, Config, EditorView, EnumSet, GroupSet, Op, OutCall, RawSet, Sess},
    sink::{Fault, SinkErr},
};

use super::{
    lockstep::{case_strategy, check_dispatch, expected_dispatch, Case, Fail, GenOpts},
    Check, DEFAULT,
};

pub fn check() -> Check {
    Check {
        id: "C14",
        run_shard,
        replay,
        level: "fault_enumeration",
        floor_quick: 3_000,
        floor_thorough: 50_000,
        rule: "Fault enumeration: for every scenario of a corpus (typing and editing, recall, completion, Enter with handler output, every kind of parse error, help / help <cmd> / nested help in plain and grouped command sets, Cli::write, set_prompt, multi-byte quoting, construction) \
               a clean run counts the sink calls N; then EVERY call index k < N is failed once and, separately, permanently (2N runs per scenario), after which the sink is repaired - at once, or only after 1-3 further input bytes have arrived (the outage may end inside a key's encoding) - and each of five suffixes ending in Enter (one recalling history, one starting with a multi-byte character) is typed. Proptest-generated sessions with a random k extend the corpus. \
               Oracle: no panic; the API call during which the sink raised SinkErr(k) returns Err(SinkErr(k')) with k' raised in that call, and calls during which nothing was raised return Ok; the edited line (hook) is the line before the call, the clean-run line after it, or empty, and well-formed UTF-8; \
               the suffix behaves like an ideal editor on the observed line, a recall in it shows only a line the user submitted, and its Enter dispatches exactly the reference tokens of that line. \
               Non-trivial = the failure lands inside handler output, help output, error output, a redraw or a completion echo and is not the first sink call of that API call; distinct by (scenario, k, mode). The error a failing sink call reports takes every ErrorKind embedded_io names (18): the corpus fails every call once and for good with each kind, generated runs draw one. The session command group has a command with an optional sub-command whose help is asked for in five ways.",
        assumptions: &[
            "single failure points (one call failed once, or all calls from k on until repair, the repair coming right after the failing call or up to 3-4 input bytes later), not arbitrary failure patterns",
            "what the terminal shows after a failed write is left open; only the returned error, the edited line and later dispatches are judged",
            "the scenario stops at the first API call that returns an error; the sink is then repaired",
        ],
        ..DEFAULT
    }
}

// ------------------------------------------------------------------------------------------------
// scenario corpus

struct Scenario {
    set: &'static str,
    cmd_buf: usize,
    hist_buf: usize,
    scripts: &'static [&'static [(&'static str, &'static str)]],
    text: &'static str,
}

const OUT1: &[(&str, &str)] = &[("w", "out1\n"), ("wl", "second"), ("w", "tail")];
const OUT2: &[(&str, &str)] = &[("fmt", "a|b"), ("p", "2")];
const OUT3: &[(&str, &str)] = &[("u", "x\ny\n")];

fn corpus() -> Vec<Scenario> {
    let s = |set, cmd_buf, hist_buf, scripts, text| Scenario { set, cmd_buf, hist_buf, scripts, text };
    vec![
        s("raw", 32, 32, &[], ""),
        s("raw", 32, 32, &[], "abc"),
        s("raw", 32, 32, &[], "abc<L><L>x<R>é<BS><BS>"),
        s("raw", 4, 32, &[], "abcdef<L>g"),
        s("raw", 32, 32, &[], "a𝄞₿<L><L>é<BS>"),
        s("raw", 32, 32, &[], "abc<CR>"),
        s("raw", 32, 32, &[OUT1], "abc<CR>"),
        s("raw", 32, 32, &[OUT1], "set \"a é\" c<CR>"),
        s("raw", 32, 32, &[OUT2], "set \"a é\" c<CR>x<CR>"),
        s("raw", 32, 32, &[OUT3], "  get   led  <CR>"),
        s("raw", 32, 32, &[OUT1], "\"\" \"q\\\"\\\\\" z<CR>"),
        s("raw", 32, 32, &[], "   <CR>"),
        s("raw", 32, 32, &[], "<CR><CR>"),
        s("raw", 32, 32, &[OUT1], "one<CR>two<CR><UP><UP><DN><CR>"),
        s("raw", 32, 8, &[], "abc<CR>defg<CR>é<CR><UP><UP><UP><DN><DN><DN>"),
        s("raw", 32, 32, &[], "abc<CR>xy<L><UP>"),
        s("raw", 32, 32, &[], "alpha<CR>beta<CR><UP>2<UP><UP><DN>"),
        s("raw", 32, 32, &[], "alpha<CR>beta<CR><UP><BS><L>x<UP><DN><DN>"),
        s("raw", 32, 32, &[], "h<TAB>"),
        s("raw", 32, 32, &[], "he<L><TAB><CR>"),
        s("raw", 32, 32, &[], "abc<L><L><W:hello\nworld>"),
        s("raw", 32, 32, &[], "abc<W:>"),
        s("raw", 32, 32, &[], "ab<L><P:3>c<P:1>"),
        s("raw", 32, 32, &[OUT2], "a<CR>b<L><W:x>"),
        s("raw", 32, 32, &[], "help<CR>"),
        s("raw", 32, 32, &[], "help x<CR>"),
        s("raw", 32, 32, &[], "x --help<CR>"),
        s("enum", 40, 32, &[OUT1], "get-led 1<CR>"),
        s("enum", 40, 32, &[OUT1], "get-led -v 1<CR>get-adc --samples 3 2<CR>"),
        s("enum", 40, 32, &[], "get-led<CR>"),
        s("enum", 40, 32, &[], "get-led x<CR>"),
        s("enum", 40, 32, &[], "get-led 1 2<CR>"),
        s("enum", 40, 32, &[], "get-led --bogus 1<CR>"),
        s("enum", 40, 32, &[], "get-led -é 1<CR>"),
        s("enum", 40, 32, &[], "nosuch<CR>"),
        s("enum", 40, 32, &[], "net<CR>"),
        s("enum", 40, 32, &[], "net bad<CR>"),
        s("enum", 40, 32, &[OUT3], "net up -f eth0<CR>"),
        s("enum", 40, 32, &[OUT1], "set -k \"ключ 1\" \"a é\" c<CR>"),
        s("enum", 40, 32, &[], "help<CR>"),
        s("enum", 40, 32, &[], "help get-led<CR>"),
        s("enum", 40, 32, &[], "help get-adc<CR>"),
        s("enum", 40, 32, &[], "get-adc --help<CR>"),
        s("enum", 40, 32, &[], "help net<CR>"),
        s("enum", 40, 32, &[], "help net up<CR>"),
        s("enum", 40, 32, &[], "net up -h<CR>"),
        s("enum", 40, 32, &[], "help net iface up<CR>"),
        s("enum", 40, 32, &[], "net iface mtu --help<CR>"),
        s("enum", 40, 32, &[OUT1], "net iface mtu 1500<CR>"),
        s("enum", 40, 32, &[], "net iface mtu x<CR>"),
        s("enum", 40, 32, &[], "help nosuch<CR>"),
        s("enum", 40, 32, &[], "help net nosuch<CR>"),
        s("enum", 40, 32, &[], "g<TAB>l<TAB> 1<CR>"),
        s("enum", 40, 32, &[], "e<TAB><CR>"),
        s("enum", 8, 32, &[], "get-<TAB>ad<TAB>"),
        s("enum", 40, 32, &[], "ge <L><TAB><CR>"),
        s("enum", 40, 32, &[], "ex  <L><L><TAB>"),
        s("group", 40, 32, &[], "a<TAB><L><L>x<CR>"),
        s("group", 40, 32, &[OUT1], "hello<CR>"),
        s("group", 40, 32, &[OUT2], "эхо \"привет мир\"<CR>go-to -x 3<CR>"),
        s("group", 40, 32, &[], "go-to -x q<CR>"),
        s("group", 40, 32, &[], "secret-cmd<CR>"),
        s("group", 40, 32, &[], "nosuch<CR>"),
        s("group", 40, 32, &[], "help<CR>"),
        s("group", 40, 32, &[], "help get-led<CR>"),
        s("group", 40, 32, &[], "help hello<CR>"),
        s("group", 40, 32, &[], "help go-to<CR>"),
        s("group", 40, 32, &[], "go-to --help<CR>"),
        s("group", 40, 32, &[], "help secret-cmd<CR>"),
        s("group", 40, 32, &[], "help nosuch<CR>"),
        s("group", 40, 32, &[], "help net up<CR>"),
        s("group", 40, 32, &[], "net iface up -h<CR>"),
        // an optional sub-command: its help is reached through the parent's
        s("group", 40, 32, &[OUT1], "conf<CR>"),
        s("group", 40, 32, &[OUT2], "conf -v get speed<CR>"),
        s("group", 40, 32, &[], "conf get --help<CR>"),
        s("group", 40, 32, &[], "help conf get<CR>"),
        s("group", 40, 32, &[], "help conf<CR>"),
        s("group", 40, 32, &[], "conf nosuch --help<CR>"),
        s("group", 40, 32, &[], "conf get<CR>"),
        s("group", 40, 32, &[], "he<TAB><CR>"),
        s("group", 40, 32, &[OUT3], "g<TAB><W:note\n>o<TAB><CR>"),
    ]
}

fn parse_script(s: &[(&str, &str)]) -> Vec<OutCall> {
    s.iter()
        .map(|(k, t)| match *k {
            "w" => OutCall::WriteStr(t.to_string()),
            "wl" => OutCall::WritelnStr(t.to_string()),
            "u" => OutCall::Uwrite(t.to_string()),
            "fmt" => {
                let (a, b) = t.split_once('|').unwrap_or((t, ""));
                OutCall::Fmt(a.to_string(), b.to_string())
            }
            _ => OutCall::SetPrompt(t.parse().unwrap_or(0)),
        })
        .collect()
}

fn parse_ops(text: &str) -> Vec<Op> {
    let mut ops = Vec::new();
    let mut rest = text;
    while !rest.is_empty() {
        if let Some(r) = rest.strip_prefix('<') {
            if let Some(end) = r.find('>') {
                let tag = &r[..end];
                let op = match tag {
                    "CR" => Some(Op::Enter),
                    "BS" => Some(Op::Backspace),
                    "L" => Some(Op::Left),
                    "R" => Some(Op::Right),
                    "UP" => Some(Op::Up),
                    "DN" => Some(Op::Down),
                    "TAB" => Some(Op::Tab),
                    t if t.starts_with("W:") => Some(Op::Write(vec![OutCall::WriteStr(t[2..].to_string())])),
                    t if t.starts_with("P:") => Some(Op::SetPrompt(t[2..].parse().unwrap_or(0))),
                    _ => None,
                };
                if let Some(op) = op {
                    ops.push(op);
                    rest = &r[end + 1..];
                    continue;
                }
            }
        }
        let c = rest.chars().next().unwrap();
        ops.push(Op::Char(c));
        rest = &rest[c.len_utf8()..];
    }
    ops
}

fn scenario_case(sc: &Scenario) -> Case {
    Case {
        cfg: Config {
            cmd_buf: sc.cmd_buf,
            hist_buf: sc.hist_buf,
            set: sc.set.to_string(),
            scripts: sc.scripts.iter().map(|s| parse_script(s)).collect(),
            ..Config::default()
        },
        ops: parse_ops(sc.text),
    }
}

fn suffixes() -> Vec<Vec<Op>> {
    vec![
        vec![Op::Char('x'), Op::Enter],
        vec![Op::Backspace, Op::Char('é'), Op::Left, Op::Char('b'), Op::Enter],
        vec![Op::Left, Op::Left, Op::Char(' '), Op::Right, Op::Char('"'), Op::Enter, Op::Char('z'), Op::Enter],
        vec![Op::Up, Op::Enter, Op::Up, Op::Up, Op::Char('q'), Op::Enter, Op::Down, Op::Enter],
        vec![Op::Char('₿'), Op::Left, Op::Char('é'), Op::Enter],
    ]
}

// ------------------------------------------------------------------------------------------------
// execution

#[derive(Clone, Debug)]
pub enum Step {
    Byte(u8, usize),
    Write(Vec<OutCall>, usize),
    SetPrompt(usize, usize),
}

impl Step {
    pub fn op_index(&self) -> usize {
        match self {
            Step::Byte(_, i) | Step::Write(_, i) | Step::SetPrompt(_, i) => *i,
        }
    }
}

pub fn steps_of(cfg: &Config, ops: &[Op]) -> Vec<Step> {
    let mut out = Vec::new();
    let mut last: Option<u8> = None;
    for (i, op) in ops.iter().enumerate() {
        match op {
            Op::Write(c) => out.push(Step::Write(c.clone(), i)),
            Op::SetPrompt(p) => out.push(Step::SetPrompt(*p, i)),
            _ => {
                for b in op.encode(cfg, last) {
                    last = Some(b);
                    out.push(Step::Byte(b, i));
                }
            }
        }
    }
    out
}

fn do_step<S: CmdSet>(s: &mut Sess<S>, st: &Step) -> Result<(), SinkErr> {
    match st {
        Step::Byte(b, _) => s.byte(*b),
        Step::Write(c, _) => s.write(c),
        Step::SetPrompt(p, _) => s.set_prompt(*p),
    }
}

struct Clean {
    construction_calls: usize,
    /// per step: sink calls before the step, editor after the step
    steps: Vec<(usize, EditorView)>,
    total_calls: usize,
    /// per step: the line an Enter submitted at that step (None for other steps)
    submitted: Vec<Option<Vec<u8>>>,
}

fn clean_run<S: CmdSet>(cfg: &Config, steps: &[Step]) -> Result<Clean, Fail> {
    let (s, st) = Sess::<S>::new(cfg, None);
    let mut s = s.map_err(|e| ("clean run: construction succeeds".to_string(), format!("{:?}", e)))?;
    let construction_calls = st.borrow().calls;
    let mut recs = Vec::new();
    let mut submitted = Vec::new();
    for step in steps {
        let before = st.borrow().calls;
        let line_before = s.editor().bytes;
        let calls_before = s.calls();
        let out_before = s.out_len();
        do_step(&mut s, step).map_err(|e| ("clean run: Ok".to_string(), format!("{:?}", e)))?;
        // an Enter is recognised by its effect: the line was cleared and a line break was written
        let is_enter = matches!(step, Step::Byte(b'\r', _) | Step::Byte(b'\n', _)) && (s.calls() > calls_before || s.out_from(out_before).starts_with(b"\r\n"));
        submitted.push(if is_enter { Some(line_before) } else { None });
        recs.push((before, s.editor()));
    }
    let total_calls = st.borrow().calls;
    Ok(Clean {
        construction_calls,
        steps: recs,
        total_calls,
        submitted,
    })
}

fn lossy(b: &[u8]) -> String {
    String::from_utf8_lossy(b).to_string()
}

/// The input typed after the failure. The first `outage` bytes are typed while the sink is down again (an outage may end in
/// the middle of a key's encoding); from then on the sink works. Keys are what the reference decoder makes of the bytes.
fn run_suffix<S: CmdSet>(s: &mut Sess<S>, cfg: &Config, suffix: &[Op], typed_lines: &[Vec<u8>], outage: usize, st: &std::rc::Rc<std::cell::RefCell<vmodel::sink::SinkState>>) -> Result<(), Fail> {
    use vmodel::refs::{Key, RefDecoder};
    let mut typed_lines: Vec<Vec<u8>> = typed_lines.to_vec();
    let mut bytes = Vec::new();
    let mut last = s.last_byte;
    for op in suffix {
        for b in op.encode(cfg, last) {
            last = Some(b);
            bytes.push(b);
        }
    }
    let seat = |s: &Sess<S>, m: &mut RefEditor, what: &str| -> Result<(), Fail> {
        let ev = s.editor();
        let text = ev.text().ok_or_else(|| (format!("{}: line is well-formed UTF-8", what), format!("{:02x?}", ev.bytes)))?.to_string();
        if ev.cursor > text.chars().count() {
            return Err((format!("{}: cursor within the line", what), format!("cursor {} on {:?}", ev.cursor, text)));
        }
        m.set_with_cursor(&text, ev.cursor);
        Ok(())
    };
    let mut m = RefEditor::new(cfg.cmd_buf);
    seat(s, &mut m, "after the failure")?;
    if outage > 0 {
        let now = st.borrow().calls;
        st.borrow_mut().fault = Some(Fault { call: now, permanent: true, outage: 0, kind: 0 });
    }
    let mut dec = RefDecoder::new();
    for (bi, &b) in bytes.iter().enumerate() {
        let down = bi < outage;
        if bi == outage && outage > 0 {
            st.borrow_mut().repair();
        }
        let what = format!("after the failure, suffix byte #{} ({:#04x}) with the sink {}", bi, b, if down { "still down" } else { "working" });
        let key = dec.accept(b);
        let pre = s.editor();
        let pre_line = m.string();
        let calls0 = s.calls();
        let r0 = st.borrow().raised.len();
        let res = s.byte(b);
        let raised: Vec<usize> = st.borrow().raised[r0..].to_vec();
        match res {
            Ok(()) => {
                if !raised.is_empty() {
                    return Err((format!("{}: the call returns the error raised by the sink (calls {:?})", what, raised), "Ok (error swallowed)".into()));
                }
            }
            Err(e) => {
                if !down {
                    return Err((format!("{}: Ok", what), format!("{:?}", e)));
                }
                if !raised.contains(&e.0) {
                    return Err((format!("{}: Err carries an error raised during this call ({:?})", what, raised), format!("{:?}", e)));
                }
            }
        }
        let new_calls = s.proc_.log[calls0..].to_vec();
        let ev = s.editor();
        let Some(key) = key else {
            // part of a longer encoding: later input is decoded normally, so nothing happens yet
            if ev != pre || !new_calls.is_empty() {
                return Err((format!("{}: the byte only starts or continues a key: no change, no dispatch", what), format!("line {:?} -> {:?}, {} invocation(s)", lossy(&pre.bytes), lossy(&ev.bytes), new_calls.len())));
            }
            continue;
        };
        if !matches!(key, Key::Enter) && !new_calls.is_empty() {
            return Err((format!("{}: only Enter invokes the handler", what), format!("{:?}", new_calls)));
        }
        let recall_ok = |ev: &EditorView, typed: &[Vec<u8>]| ev.bytes.is_empty() || ev.bytes == pre_line.as_bytes() || typed.iter().any(|l| *l == ev.bytes);
        match key {
            Key::Char(c) => {
                m.insert(c);
            }
            Key::Backspace => {
                m.backspace();
            }
            Key::Left => {
                m.left();
            }
            Key::Right => {
                m.right();
            }
            Key::Enter => {
                if down {
                    // the handler may or may not have been reached before the output failed; if it was, then with this line
                    if new_calls.len() > 1 {
                        return Err((format!("{}: at most one invocation", what), format!("{:?}", new_calls)));
                    }
                    if !new_calls.is_empty() {
                        check_dispatch(&expected_dispatch(&pre_line, true), &new_calls, &what, &pre_line)?;
                    }
                } else {
                    check_dispatch(&expected_dispatch(&pre_line, true), &new_calls, &what, &pre_line)?;
                }
                typed_lines.push(pre_line.as_bytes().to_vec());
                m.clear();
            }
            Key::Up | Key::Down => {
                // recall may show any line the user submitted so far, the line as it was, or nothing - never other text
                if !recall_ok(&ev, &typed_lines) {
                    return Err((
                        format!("{}: recall shows a line the user submitted ({:?}), the line as it was, or nothing", what, typed_lines.iter().map(|l| lossy(l)).collect::<Vec<_>>()),
                        format!("{:?}", lossy(&ev.bytes)),
                    ));
                }
                seat(s, &mut m, &what)?;
            }
            Key::Tab => {
                seat(s, &mut m, &what)?;
            }
        }
        if down {
            // the line is as it was, as the key would have left it, or cleared
            let as_key = ev.bytes == m.string().as_bytes() && ev.cursor == m.cursor;
            let as_before = ev == pre;
            let cleared = ev.bytes.is_empty() && ev.cursor == 0;
            if !(as_key || as_before || cleared) {
                return Err((
                    format!("{}: the line is as before ({:?} cursor {}), as the key would have left it ({:?} cursor {}), or empty", what, lossy(&pre.bytes), pre.cursor, m.string(), m.cursor),
                    format!("{:?} cursor {}", lossy(&ev.bytes), ev.cursor),
                ));
            }
            seat(s, &mut m, &what)?;
        } else if ev.bytes != m.string().as_bytes() || ev.cursor != m.cursor {
            return Err((format!("{}: line {:?} cursor {}", what, m.string(), m.cursor), format!("line {:?} cursor {}", lossy(&ev.bytes), ev.cursor)));
        }
    }
    Ok(())
}

/// One fault run. Returns Some(step index) where the failure surfaced (None: during construction).
fn fault_run<S: CmdSet>(cfg: &Config, ops: &[Op], steps: &[Step], clean: &Clean, fault: Fault, suffix: &[Op]) -> Result<Option<usize>, Fail> {
    let (s, st) = Sess::<S>::new(cfg, Some(fault));
    let raised0 = st.borrow().raised.clone();
    let mut s = match s {
        Err(e) => {
            if !raised0.contains(&e.0) {
                return Err(("construction returns the error the sink raised".into(), format!("{:?}, sink raised {:?}", e, raised0)));
            }
            return Ok(None);
        }
        Ok(s) => {
            if !raised0.is_empty() {
                return Err((
                    format!("construction returns Err: the sink failed at call(s) {:?} while printing the prompt", raised0),
                    "Ok (error swallowed)".into(),
                ));
            }
            s
        }
    };
    let _ = clean.construction_calls;
    for (si, step) in steps.iter().enumerate() {
        let pre = s.editor();
        let r0 = st.borrow().raised.len();
        let res = do_step(&mut s, step);
        let raised: Vec<usize> = st.borrow().raised[r0..].to_vec();
        let what = format!("op #{} ({:?}) with sink call {} failing {}", step.op_index(), step, fault.call, if fault.permanent { "permanently" } else { "once" });
        match res {
            Ok(()) => {
                if !raised.is_empty() {
                    return Err((format!("{}: the call returns the error raised by the sink (calls {:?})", what, raised), "Ok (error swallowed)".into()));
                }
                let ev = s.editor();
                if ev != clean.steps[si].1 {
                    return Err((
                        format!("{}: before the fault the run is identical to the clean run: line {:?}", what, lossy(&clean.steps[si].1.bytes)),
                        format!("{:?}", lossy(&ev.bytes)),
                    ));
                }
            }
            Err(e) => {
                if !raised.contains(&e.0) {
                    return Err((format!("{}: Err carries an error raised during this call ({:?})", what, raised), format!("{:?}", e)));
                }
                let ev = s.editor();
                if core::str::from_utf8(&ev.bytes).is_err() {
                    return Err((format!("{}: the line stays well-formed UTF-8", what), format!("{:02x?}", ev.bytes)));
                }
                let after = &clean.steps[si].1;
                let ok = (ev.bytes == pre.bytes && ev.cursor == pre.cursor) || (ev.bytes == after.bytes && ev.cursor == after.cursor) || (ev.bytes.is_empty() && ev.cursor == 0);
                if !ok {
                    return Err((
                        format!(
                            "{}: the line is as before ({:?} cursor {}), as the key would have left it ({:?} cursor {}), or empty",
                            what,
                            lossy(&pre.bytes),
                            pre.cursor,
                            lossy(&after.bytes),
                            after.cursor
                        ),
                        format!("{:?} cursor {}", lossy(&ev.bytes), ev.cursor),
                    ));
                }
                st.borrow_mut().repair();
                // the rest of the key whose first byte failed (the LF of a CR LF Enter): later input is decoded normally,
                // so the second half of the pair is still swallowed - no dispatch, no change of the line, no new line on the terminal
                let op_i = step.op_index();
                for rest in steps[si + 1..].iter().take_while(|r| r.op_index() == op_i && matches!(ops.get(op_i), Some(Op::Enter))) {
                    if let Step::Byte(b, _) = rest {
                        let before = s.editor();
                        let (calls0, out0) = (s.calls(), s.out_len());
                        if let Err(e) = s.byte(*b) {
                            return Err((format!("{}: the remaining byte {:#04x} of the same key is accepted by the repaired sink", what, b), format!("{:?}", e)));
                        }
                        // (what the terminal is sent after a failed call is left open - a library may repaint its prompt on the
                        // next byte - but a line feed would mean that the byte was taken for an Enter of its own)
                        if s.calls() != calls0 || s.editor() != before || s.out_from(out0).contains(&b'\n') {
                            return Err((
                                format!("{}: the remaining byte {:#04x} of the same key (second half of the line terminator) does nothing: later input is decoded normally", what, b),
                                format!("{} new invocation(s), line {:?} -> {:?}, {} bytes written", s.calls() - calls0, lossy(&before.bytes), lossy(&s.editor().bytes), s.out_len() - out0),
                            ));
                        }
                    }
                }
                let typed: Vec<Vec<u8>> = clean.submitted[..=si].iter().flatten().cloned().collect();
                run_suffix(&mut s, cfg, suffix, &typed, fault.outage as usize, &st).map_err(|(e, o)| (format!("{} — {}", what, e), o))?;
                return Ok(Some(si));
            }
        }
    }
    Ok(Some(steps.len()))
}

fn run_one<S: CmdSet>(c: &Case, fault: Fault, suffix: &[Op]) -> Result<(bool, usize), Fail> {
    let steps = steps_of(&c.cfg, &c.ops);
    let clean = clean_run::<S>(&c.cfg, &steps)?;
    let at = fault_run::<S>(&c.cfg, &c.ops, &steps, &clean, fault, suffix)?;
    // non-trivial: the failure is inside output produced by Enter / write / prompt change / recall / completion
    let nt = match at {
        Some(si) if si < steps.len() => {
            let first_call = clean.steps[si].0;
            let heavy = match &steps[si] {
                Step::Write(..) | Step::SetPrompt(..) => true,
                Step::Byte(_, oi) => matches!(c.ops[*oi], Op::Enter | Op::Up | Op::Down | Op::Tab),
            };
            heavy && fault.call > first_call
        }
        _ => false,
    };
    Ok((nt, clean.total_calls))
}

fn dispatch_set(c: &Case, fault: Fault, suffix: &[Op]) -> Result<(bool, usize), Fail> {
    match c.cfg.set.as_str() {
        "enum" => run_one::<EnumSet>(c, fault, suffix),
        "group" => run_one::<GroupSet>(c, fault, suffix),
        _ => run_one::<RawSet>(c, fault, suffix),
    }
}

fn total_calls(c: &Case) -> Result<usize, Fail> {
    let steps = steps_of(&c.cfg, &c.ops);
    Ok(match c.cfg.set.as_str() {
        "enum" => clean_run::<EnumSet>(&c.cfg, &steps)?.total_calls,
        "group" => clean_run::<GroupSet>(&c.cfg, &steps)?.total_calls,
        _ => clean_run::<RawSet>(&c.cfg, &steps)?.total_calls,
    })
}

fn fault_json(c: &Case, fault: Fault, suffix: &[Op]) -> Value {
    json!({"cfg": c.cfg, "ops": c.ops, "fault": fault, "suffix": suffix})
}

fn run_shard(ctx: &ShardCtx) {
    // corpus x every call index x {once, permanent} x suffixes
    let mut idx = 0u64;
    let sfx = suffixes();
    // every scenario with Enter sent as CR, as CR LF and as LF CR
    let scen = corpus();
    'corpus: for (sci, (sc, es)) in scen.iter().flat_map(|sc| [0u8, 2, 3].into_iter().map(move |es| (sc, es))).enumerate() {
        let mut case = scenario_case(sc);
        case.cfg.enter_style = es;
        let n = match vmodel::engine::guarded(|| total_calls(&case)) {
            Ok(Ok(n)) => n,
            Ok(Err((e, o))) => {
                ctx.fail(Failure::new("fault-corpus", fault_json(&case, Fault { call: usize::MAX, permanent: false, outage: 0, kind: 0 }, &[]), e, o));
                break;
            }
            Err(p) => {
                ctx.fail(Failure::new("fault-corpus", fault_json(&case, Fault { call: usize::MAX, permanent: false, outage: 0, kind: 0 }, &[]), "no panic in the clean run", p));
                break;
            }
        };
        for k in 0..n {
            // once; until the failing call has returned; and, further, while 1-3 more input bytes arrive
            // (the last two rows: every kind of error `embedded_io` names, at this call, once and for good, first suffix only)
            let kinds = vmodel::sink::KINDS.len() as u8;
            let modes = [(false, 0u8, 0u8, 1), (true, 0, 0, 1), (true, 1, 0, 1), (true, 2, 0, 1), (true, 3, 0, 1), (false, 0, 1, kinds - 1), (true, 0, 1, kinds - 1)];
            for (permanent, outage, kind) in modes.into_iter().flat_map(|(p, o, k0, nk)| (k0..k0 + nk).map(move |kd| (p, o, kd))) {
                for (xi, suffix) in sfx.iter().enumerate() {
                    if kind != 0 && xi != 0 {
                        continue;
                    }
                    idx += 1;
                    if !ctx.mine(idx) {
                        continue;
                    }
                    let fault = Fault { call: k, permanent, outage, kind };
                    ctx.count_eval();
                    if ctx.trace_file.is_some() {
                        ctx.trace(&json!({"check": "fault-corpus", "case": fault_json(&case, fault, suffix)}));
                    }
                    match vmodel::engine::guarded(|| dispatch_set(&case, fault, suffix)) {
                        Ok(Ok((nt, _))) => {
                            if nt {
                                ctx.class("corpus:fault inside heavy output");
                                ctx.nontrivial(fingerprint(&("corpus", sci, k, permanent, outage, xi, kind)), || {
                                    json!({"scenario": sc.text, "set": sc.set, "enter_style": es, "fault_call": k, "permanent": permanent, "outage_bytes": outage, "suffix": xi, "error_kind": format!("{:?}", vmodel::sink::KINDS[(k + kind as usize) % vmodel::sink::KINDS.len()])})
                                });
                            }
                        }
                        Ok(Err((e, o))) => {
                            ctx.fail(Failure::new("fault-corpus", fault_json(&case, fault, suffix), e, o));
                            break 'corpus;
                        }
                        Err(p) => {
                            ctx.fail(Failure::new("fault-corpus", fault_json(&case, fault, suffix), "no panic", p));
                            break 'corpus;
                        }
                    }
                }
            }
        }
    }
    ctx.exhaustive("every sink-call index of every corpus scenario, failed once and permanently", !ctx.failed());
    let enumerated = ctx.res.borrow().evaluations;
    ctx.class_n("corpus:fault runs", enumerated);

    // generated sessions with a random fault position
    let opts = GenOpts {
        writes: 5,
        set_prompts: 3,
        scripts: true,
        max_ops: ctx.tier.pick(30, 60),
        quotes: true,
    };
    let suffix_op = prop_oneof![
        4 => prop_oneof![Just('a'), Just(' '), Just('é'), Just('"'), Just('-'), Just('𝄞')].prop_map(Op::Char),
        1 => Just(Op::Backspace),
        1 => Just(Op::Left),
        1 => Just(Op::Right),
        1 => Just(Op::Enter),
        1 => Just(Op::Up),
    ];
    let strat = (
        case_strategy(opts, &["raw", "enum", "group"]),
        any::<u16>(),
        (any::<bool>(), 0u8..5, 0u8..18),
        proptest::collection::vec(suffix_op, 0..6),
    );
    ctx.run_prop(
        "fault-random",
        ctx.tier.pick(4_000_000, 20_000_000),
        strat,
        |(c, k, (p, og, kd), sfx)| {
            let mut suffix = sfx.clone();
            suffix.push(Op::Enter);
            let n = total_calls(c).unwrap_or(1).max(1);
            fault_json(c, Fault { call: (*k as usize * n) >> 16, permanent: *p, outage: if *p { *og } else { 0 }, kind: *kd }, &suffix)
        },
        |(c, k, (p, og, kd), sfx)| {
            let mut suffix = sfx.clone();
            suffix.push(Op::Enter);
            let n = match total_calls(c) {
                Ok(n) => n.max(1),
                Err((e, o)) => return Err(Failure::new("fault-random", Value::Null, e, o)),
            };
            let fault = Fault { call: (*k as usize * n) >> 16, permanent: *p, outage: if *p { *og } else { 0 }, kind: *kd };
            match dispatch_set(c, fault, &suffix) {
                Ok((nt, _)) => {
                    if nt {
                        ctx.class("random:fault inside heavy output");
                        ctx.nontrivial(fingerprint(&(&c.cfg, &c.ops, fault.call, fault.permanent, fault.outage, fault.kind)), || fault_json(c, fault, &suffix));
                    }
                    Ok(())
                }
                Err((e, o)) => Err(Failure::new("fault-random", Value::Null, e, o)),
            }
        },
    );
}

fn replay(sub: &str, case: &Value) -> Verdict {
    let fail = |e: String, o: String| Failure::new(sub, case.clone(), e, o);
    let c = Case {
        cfg: serde_json::from_value(case["cfg"].clone()).map_err(|e| fail("well-formed case".into(), e.to_string()))?,
        ops: serde_json::from_value(case["ops"].clone()).map_err(|e| fail("well-formed case".into(), e.to_string()))?,
    };
    let fault: Fault = serde_json::from_value(case["fault"].clone()).map_err(|e| fail("well-formed case".into(), e.to_string()))?;
    let suffix: Vec<Op> = serde_json::from_value(case["suffix"].clone()).unwrap_or_default();
    dispatch_set(&c, fault, &suffix).map(|_| ()).map_err(|(e, o)| fail(e, o))
}
