//! vcheck: entry point of every check.
//!
//!   vcheck <ID> quick|thorough          run a check (parent: regressions, 16 worker processes, evidence)
//!   vcheck <ID> replay <path>           re-execute one replay file
//!   vcheck --worker ...                 internal
//!   vcheck --one <path>                 internal: execute one case file in this process

use std::{
    collections::BTreeMap,
    path::{Path, PathBuf},
    process::{Command, ExitCode, Stdio},
    time::{Duration, Instant},
};

use serde_json::{json, Value};
use vmodel::engine::{install_panic_hook, guarded, Failure, ShardCtx, ShardResult, Tier, Verdict};

mod checks;


fn usage() -> ExitCode {
    eprintln!("usage: vcheck <ID> quick|thorough | vcheck <ID> replay <path>");
    ExitCode::from(2)
}

fn main() -> ExitCode {
    let args: Vec<String> = std::env::args().collect();
    if args.len() < 3 && !(args.len() == 2 && args[1] == "--warm") {
        return usage();
    }
    if args[1] == "--worker" {
        return worker(&args[2..]);
    }
    if args[1] == "--one" {
        return one(&args[2]);
    }
    if args[1] == "--warm" {
        // build the generated-declaration crates once so that later runs only recompile what changed
        for id in ["C09", "C11", "C12"] {
            let c = checks::find(id).unwrap();
            if let Some(p) = c.prepare {
                match p(Tier::Quick, 0, &vmodel::root().join("harness/run")) {
                    Ok(v) => println!("warm {}: {}", id, v),
                    Err(checks::PrepError::Inconclusive(e)) => println!("warm {}: inconclusive: {}", id, e),
                    Err(checks::PrepError::Violation(f)) => println!("warm {}: {}", id, f.observed),
                }
            }
        }
        return ExitCode::SUCCESS;
    }
    if args[1] == "--make-corpus" {
        checks::c03::make_corpus(&args[2], args.get(3).and_then(|n| n.parse().ok()).unwrap_or(300));
        return ExitCode::SUCCESS;
    }
    let id = args[1].as_str();
    if checks::find(id).is_none() {
        eprintln!("unknown property {}", id);
        return ExitCode::from(2);
    }
    match args[2].as_str() {
        "quick" => parent(id, Tier::Quick),
        "thorough" => parent(id, Tier::Thorough),
        "replay" if args.len() >= 4 => replay(id, &args[3]),
        _ => usage(),
    }
}

fn seed_from_env() -> u64 {
    std::env::var("VERIF_SEED")
        .ok()
        .and_then(|s| s.trim().parse::<i64>().ok())
        .map(|v| v as u64)
        .unwrap_or(0)
}

fn jobs() -> usize {
    std::env::var("VCHECK_JOBS")
        .ok()
        .and_then(|s| s.parse().ok())
        .unwrap_or(16)
}

// ------------------------------------------------------------------------------------------------
// worker side

fn worker(a: &[String]) -> ExitCode {
    // <ID> <tier> <shard> <nshards> <seed> <dir> [trace-file]
    install_panic_hook();
    let id = &a[0];
    let tier = if a[1] == "thorough" { Tier::Thorough } else { Tier::Quick };
    let shard: usize = a[2].parse().unwrap();
    let nshards: usize = a[3].parse().unwrap();
    let seed: u64 = a[4].parse().unwrap();
    let dir = PathBuf::from(&a[5]);
    let mut ctx = ShardCtx::new(id, tier, seed, shard, nshards);
    if a.len() > 6 {
        ctx.trace_file = Some(a[6].clone());
    }
    let check = checks::find(id).unwrap();
    match guarded(|| (check.run_shard)(&ctx)) {
        Ok(()) => {}
        Err(p) => {
            // a panic outside a guarded case: harness or library panic not attributed to a case
            ctx.fail(Failure::new("worker", Value::Null, "no panic", p));
        }
    }
    ctx.write_result(&dir);
    ExitCode::SUCCESS
}

/// Execute one case file {"check":..., "case":...} (or a full replay file) in this process.
/// exit 0 = passes, 1 = fails (prints details), abort/signal = fails
fn one(path: &str) -> ExitCode {
    install_panic_hook();
    let v: Value = match std::fs::read(path).ok().and_then(|b| serde_json::from_slice(&b).ok()) {
        Some(v) => v,
        None => {
            eprintln!("cannot read case file {}", path);
            return ExitCode::from(2);
        }
    };
    let id = v["property"].as_str().unwrap_or("").to_string();
    let check_name = v["check"].as_str().unwrap_or("").to_string();
    let Some(check) = checks::find(&id) else {
        eprintln!("case file names unknown property {:?}", id);
        return ExitCode::from(2);
    };
    match guarded(|| (check.replay)(&check_name, &v["case"])) {
        Ok(Ok(())) => ExitCode::SUCCESS,
        Ok(Err(f)) => {
            println!("FAIL expected: {}\nFAIL observed: {}", f.expected, f.observed);
            ExitCode::from(1)
        }
        Err(p) => {
            println!("FAIL expected: no panic\nFAIL observed: {}", p);
            ExitCode::from(1)
        }
    }
}

// ------------------------------------------------------------------------------------------------
// parent side

fn self_exe() -> PathBuf {
    std::env::current_exe().expect("current exe")
}

/// run `vcheck --one file` in a sub-process; Ok(()) = passed; Err(text) = failed or died
fn run_one(path: &Path) -> Result<(), String> {
    let out = Command::new(self_exe())
        .arg("--one")
        .arg(path)
        .stdin(Stdio::null())
        .output()
        .map_err(|e| format!("spawn failed: {}", e))?;
    if out.status.success() {
        return Ok(());
    }
    let mut text = String::from_utf8_lossy(&out.stdout).to_string();
    if out.status.code().is_none() {
        let err = String::from_utf8_lossy(&out.stderr);
        let tail: Vec<&str> = err.lines().rev().take(6).collect();
        text.push_str(&format!(
            "process died ({}): {}",
            out.status,
            tail.into_iter().rev().collect::<Vec<_>>().join(" | ")
        ));
    }
    Err(text)
}

fn write_replay(id: &str, tier: Tier, seed: u64, f: &Failure) -> PathBuf {
    let dir = vmodel::root().join("replays");
    std::fs::create_dir_all(&dir).ok();
    let body = json!({
        "property": id, "check": f.check, "seed": seed, "tier": tier.name(),
        "case": f.case, "expected": f.expected, "observed": f.observed,
    });
    let text = serde_json::to_string_pretty(&body).unwrap();
    let h = vmodel::engine::fingerprint(&text);
    let path = dir.join(format!("{}-{:016x}.json", id, h));
    std::fs::write(&path, text).unwrap();
    path
}

fn replay(id: &str, path: &str) -> ExitCode {
    let v: Value = match std::fs::read(path).ok().and_then(|b| serde_json::from_slice(&b).ok()) {
        Some(v) => v,
        None => {
            eprintln!("cannot read {}", path);
            return ExitCode::from(2);
        }
    };
    if v["property"].as_str() != Some(id) {
        eprintln!("replay file is for property {:?}", v["property"]);
        return ExitCode::from(2);
    }
    let check = checks::find(id).unwrap();
    if let Some(prep) = check.prepare_replay {
        if v["case"].get("decl").is_some() {
            if let Err(e) = prep(&v) {
                println!("INCONCLUSIVE property={} {}", id, e);
                return ExitCode::from(2);
            }
        }
    }
    match run_one(Path::new(path)) {
        Ok(()) => {
            println!("replay passes: property={} {}", id, path);
            ExitCode::SUCCESS
        }
        Err(t) => {
            println!("{}", t.trim_end());
            println!("VIOLATION property={} replay={}", id, path);
            ExitCode::from(1)
        }
    }
}

struct Known {
    fixed: Vec<String>,
    open: Vec<Value>,
}

fn load_known() -> Known {
    let p = vmodel::root().join("known_findings.json");
    let v: Value = std::fs::read(&p)
        .ok()
        .and_then(|b| serde_json::from_slice(&b).ok())
        .unwrap_or(json!({}));
    Known {
        fixed: v["fixed"]
            .as_array()
            .map(|a| a.iter().filter_map(|s| s.as_str().map(|s| s.to_string())).collect())
            .unwrap_or_default(),
        open: v["open"].as_array().cloned().unwrap_or_default(),
    }
}

fn spawn_worker(id: &str, tier: Tier, shard: usize, n: usize, seed: u64, dir: &Path, trace: Option<&Path>) -> std::process::Child {
    let mut c = Command::new(self_exe());
    c.arg("--worker")
        .arg(id)
        .arg(tier.name())
        .arg(shard.to_string())
        .arg(n.to_string())
        .arg(seed.to_string())
        .arg(dir);
    if let Some(t) = trace {
        c.arg(t);
    }
    c.stdin(Stdio::null())
        .stdout(Stdio::inherit())
        .stderr(Stdio::from(
            std::fs::File::create(dir.join(format!("shard-{}.stderr", shard))).unwrap(),
        ))
        .spawn()
        .expect("spawn worker")
}

fn parent(id: &str, tier: Tier) -> ExitCode {
    let t0 = Instant::now();
    let seed = seed_from_env();
    let check = checks::find(id).unwrap();
    let n = if check.single_shard { 1 } else { jobs() };
    let dir = vmodel::root().join("harness/run").join(format!("{}-{}", id, tier.name()));
    let _ = std::fs::remove_dir_all(&dir);
    std::fs::create_dir_all(&dir).unwrap();
    let evidence_path = vmodel::root().join("evidence").join(format!("{}.json", id));
    std::fs::create_dir_all(evidence_path.parent().unwrap()).ok();
    let _ = std::fs::remove_file(&evidence_path);
    let known = load_known();

    let mut violations: Vec<(PathBuf, String)> = Vec::new();
    let mut inconclusive: Option<String> = None;

    // 1. regression tier: every saved reproduction of a defect found earlier
    let mut regress_n = 0;
    let rdir = vmodel::root().join("regress").join(id);
    if let Ok(rd) = std::fs::read_dir(&rdir) {
        let mut files: Vec<PathBuf> = rd.filter_map(|e| e.ok().map(|e| e.path())).filter(|p| p.extension().map(|e| e == "json").unwrap_or(false)).collect();
        files.sort();
        for f in files {
            regress_n += 1;
            let v: Value = serde_json::from_slice(&std::fs::read(&f).unwrap()).unwrap_or(Value::Null);
            if let Some(prep) = check.prepare_replay {
                if v["case"].get("decl").is_some() {
                    if let Err(e) = prep(&v) {
                        inconclusive = Some(format!("regression {} could not be prepared: {}", f.display(), e));
                        continue;
                    }
                }
            }
            if let Err(t) = run_one(&f) {
                println!("regression {} fails again:\n{}", f.display(), t.trim_end());
                violations.push((f.clone(), t));
            }
        }
    }

    // 2. preparation (generated crates, feature builds, fuzz target)
    // (a violation found early does not end the run: the search below still runs, so that the evidence describes what was
    // explored on this tree and not just where the first failure was)
    let mut prep_info = Value::Null;
    {
        if let Some(prep) = check.prepare {
            match prep(tier, seed, &dir) {
                Ok(v) => prep_info = v,
                Err(checks::PrepError::Violation(f)) => {
                    let p = write_replay(id, tier, seed, &f);
                    println!("expected: {}\nobserved: {}", f.expected, f.observed);
                    violations.push((p, f.observed.clone()));
                }
                Err(checks::PrepError::Inconclusive(e)) => inconclusive = Some(e),
            }
        }
    }

    // 3. generated search in worker processes
    let mut merged = ShardResult::default();
    let mut fps: Vec<u64> = Vec::new();
    if inconclusive.is_none() {
        let limit = Duration::from_secs(tier.pick(check.quick_limit_s, check.thorough_limit_s));
        let mut children: Vec<(usize, std::process::Child)> =
            (0..n).map(|s| (s, spawn_worker(id, tier, s, n, seed, &dir, None))).collect();
        let mut died: Vec<usize> = Vec::new();
        let mut timed_out = false;
        while !children.is_empty() {
            let mut i = 0;
            while i < children.len() {
                match children[i].1.try_wait() {
                    Ok(Some(st)) => {
                        if !st.success() {
                            died.push(children[i].0);
                        }
                        children.remove(i);
                    }
                    Ok(None) => i += 1,
                    Err(_) => {
                        died.push(children[i].0);
                        children.remove(i);
                    }
                }
            }
            if t0.elapsed() > limit {
                for (_, c) in children.iter_mut() {
                    let _ = c.kill();
                    let _ = c.wait();
                }
                timed_out = true;
                break;
            }
            std::thread::sleep(Duration::from_millis(20));
        }
        if timed_out {
            inconclusive = Some(format!("watchdog: workers still running after {} s", limit.as_secs()));
        }
        for s in 0..n {
            if died.contains(&s) {
                continue;
            }
            let rp = dir.join(format!("shard-{}.json", s));
            let Some(r) = std::fs::read(&rp).ok().and_then(|b| serde_json::from_slice::<ShardResult>(&b).ok()) else {
                if !timed_out {
                    inconclusive = Some(format!("shard {} left no result", s));
                }
                continue;
            };
            merged.evaluations += r.evaluations;
            merged.skipped_unspecified += r.skipped_unspecified;
            merged.distinct_by_construction += r.distinct_by_construction;
            for (k, v) in r.classes {
                *merged.classes.entry(k).or_insert(0) += v;
            }
            for smp in r.samples {
                if merged.samples.len() < 8 {
                    merged.samples.push(smp);
                }
            }
            for (k, v) in r.exhaustive {
                let e = merged.exhaustive.entry(k).or_insert(true);
                *e = *e && v;
            }
            merged.notes.extend(r.notes);
            if let Some(f) = r.failure {
                // keep the smallest counter-example among the shards
                let size = |f: &Failure| serde_json::to_string(&f.case).map(|s| s.len()).unwrap_or(usize::MAX);
                if merged.failure.as_ref().map(|m| size(&f) < size(m)).unwrap_or(true) {
                    merged.failure = Some(f);
                }
            }
            if let Some(i) = r.inconclusive {
                if inconclusive.is_none() {
                    inconclusive = Some(i);
                }
            }
            if let Ok(b) = std::fs::read(dir.join(format!("shard-{}.fp", s))) {
                for c in b.chunks_exact(8) {
                    fps.push(u64::from_le_bytes(c.try_into().unwrap()));
                }
            }
        }
        // a worker that died by signal: re-run deterministically in trace mode to find the case
        if let Some(&s) = died.first() {
            let trace = dir.join(format!("trace-{}.json", s));
            let _ = std::fs::remove_file(&trace);
            let mut c = spawn_worker(id, tier, s, n, seed, &dir, Some(&trace));
            let st = c.wait();
            let stderr = std::fs::read_to_string(dir.join(format!("shard-{}.stderr", s))).unwrap_or_default();
            let tail: Vec<&str> = stderr.lines().rev().take(5).collect();
            let tail = tail.into_iter().rev().collect::<Vec<_>>().join(" | ");
            match std::fs::read(&trace).ok().and_then(|b| serde_json::from_slice::<Value>(&b).ok()) {
                Some(t) if st.as_ref().map(|s| !s.success()).unwrap_or(true) => {
                    let f = shrink_dead(id, t, &dir, &tail);
                    merged.failure = Some(f);
                }
                _ => {
                    inconclusive = Some(format!(
                        "worker {} died ({:?}) but the death did not reproduce in trace mode: {}",
                        s, st, tail
                    ));
                }
            }
        }
    }
    fps.sort_unstable();
    fps.dedup();
    let distinct_nontrivial = fps.len() as u64 + merged.distinct_by_construction;

    // 4. verdict
    let mut known_lines = Vec::new();
    if let Some(f) = &merged.failure {
        let sig = json!({"check": f.check, "case": f.case});
        let hit = known.open.iter().find(|o| o["property"].as_str() == Some(id) && o["signature"] == sig);
        if let Some(o) = hit {
            known_lines.push(format!(
                "KNOWN-FINDING: property={} {}",
                id,
                o["what"].as_str().unwrap_or("(no description)")
            ));
        } else {
            let p = write_replay(id, tier, seed, f);
            println!("check: {}\nexpected: {}\nobserved: {}", f.check, f.expected, f.observed);
            violations.push((p, f.observed.clone()));
        }
    }
    for l in &known_lines {
        println!("{}", l);
    }
    let _ = &known.fixed;

    // 5. vacuity guard
    let floor = tier.pick(check.floor_quick, check.floor_thorough);
    if violations.is_empty() && inconclusive.is_none() && distinct_nontrivial < floor {
        inconclusive = Some(format!(
            "vacuity guard: only {} distinct non-trivial cases (floor {})",
            distinct_nontrivial,
            floor
        ));
    }

    // 6. evidence
    let wall = t0.elapsed().as_secs_f64();
    let mut coverage = BTreeMap::new();
    let extra = prep_info.get("extra_evaluations").and_then(|v| v.as_u64()).unwrap_or(0);
    coverage.insert("evaluations".to_string(), json!(merged.evaluations + regress_n + extra));
    coverage.insert("distinct_nontrivial".to_string(), json!(distinct_nontrivial));
    coverage.insert("distinct_nontrivial_breakdown".to_string(), json!({"enumerated (distinct by construction)": merged.distinct_by_construction, "generated (distinct fingerprints)": fps.len()}));
    coverage.insert("rule".to_string(), json!(check.rule));
    let mut samples = merged.samples.clone();
    if samples.is_empty() {
        samples.push(json!("(no non-trivial case was reached in this run)"));
    }
    coverage.insert("samples".to_string(), json!(samples));
    coverage.insert("classes".to_string(), json!(merged.classes));
    coverage.insert("skipped_unspecified".to_string(), json!(merged.skipped_unspecified));
    coverage.insert("regressions_replayed".to_string(), json!(regress_n));
    coverage.insert("exhaustive_subspaces".to_string(), json!(merged.exhaustive));
    let all_exh = !merged.exhaustive.is_empty() && merged.exhaustive.values().all(|v| *v) && check.exhaustive_only;
    coverage.insert("exhaustive".to_string(), json!(all_exh));
    coverage.insert("shards".to_string(), json!(n));
    if !merged.notes.is_empty() {
        let mut notes = merged.notes.clone();
        notes.sort();
        notes.dedup();
        coverage.insert("notes".to_string(), json!(notes));
    }
    if prep_info != Value::Null {
        coverage.insert("preparation".to_string(), prep_info);
    }
    if let Some(i) = &inconclusive {
        coverage.insert("inconclusive".to_string(), json!(i));
    }
    if !known_lines.is_empty() {
        coverage.insert("known_findings_hit".to_string(), json!(known_lines));
    }
    let ev = json!({
        "property_id": id,
        "tier": tier.name(),
        "seed": seed as i64,
        "level": check.level,
        "coverage": coverage,
        "assumptions": check.assumptions,
        "wall_s": (wall * 100.0).round() / 100.0,
        "violations": violations.len(),
    });
    std::fs::write(&evidence_path, serde_json::to_string_pretty(&ev).unwrap()).unwrap();

    if !violations.is_empty() {
        for (p, _) in &violations {
            println!("VIOLATION property={} replay={}", id, p.display());
        }
        return ExitCode::from(1);
    }
    if let Some(i) = inconclusive {
        println!("INCONCLUSIVE property={} {}", id, i);
        return ExitCode::from(2);
    }
    println!(
        "OK property={} tier={} seed={} evaluations={} distinct_nontrivial={} skipped_unspecified={} wall_s={:.1}",
        id,
        tier.name(),
        seed,
        merged.evaluations + regress_n + extra,
        distinct_nontrivial,
        merged.skipped_unspecified,
        wall
    );
    ExitCode::SUCCESS
}

/// The case that killed a worker, minimised by delta debugging over its `ops` / `bytes` arrays
/// (each candidate runs in its own sub-process).
fn shrink_dead(id: &str, trace: Value, dir: &Path, stderr_tail: &str) -> Failure {
    let check = trace["check"].as_str().unwrap_or("").to_string();
    let mut case = trace["case"].clone();
    let tmp = dir.join("shrink.json");
    let dies = |c: &Value| -> Option<String> {
        std::fs::write(&tmp, serde_json::to_vec(&json!({"property": id, "check": check, "case": c})).unwrap()).unwrap();
        run_one(&tmp).err()
    };
    let mut observed = match dies(&case) {
        Some(t) => t,
        None => {
            return Failure::new(
                &check,
                case,
                "no abort",
                format!("worker died ({}), but the last traced case passes alone: state leaked between cases?", stderr_tail),
            )
        }
    };
    for key in ["ops", "bytes", "lines"] {
        let Some(arr) = case.get(key).and_then(|a| a.as_array()).cloned() else { continue };
        let mut cur = arr;
        let mut chunk = (cur.len() / 2).max(1);
        let mut budget = 600;
        loop {
            let mut i = 0;
            let mut progressed = false;
            while i < cur.len() && budget > 0 {
                let mut cand = cur.clone();
                let end = (i + chunk).min(cand.len());
                cand.drain(i..end);
                let mut c2 = case.clone();
                c2[key] = Value::Array(cand.clone());
                budget -= 1;
                if let Some(t) = dies(&c2) {
                    cur = cand;
                    observed = t;
                    progressed = true;
                } else {
                    i += chunk;
                }
            }
            if budget == 0 {
                break;
            }
            if chunk == 1 {
                if !progressed {
                    break;
                }
            } else {
                chunk /= 2;
            }
        }
        case[key] = Value::Array(cur);
    }
    Failure::new(&check, case, "no panic, abort or failed precondition", observed.trim().to_string())
}

pub type RunShard = fn(&ShardCtx);
pub type ReplayFn = fn(&str, &Value) -> Verdict;
