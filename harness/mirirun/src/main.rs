//! Runs byte-level sessions (the C03 fuzz format) under Miri: `cargo +nightly miri run -p mirirun -- <dir> <shard> <nshards> [max]`.
//! Miri reports what neither assertions nor ASan can see (aliasing violations, uninitialised reads, misaligned or
//! dangling accesses inside the library's unsafe blocks); the C03 invariants are checked as well.
fn main() {
    let a: Vec<String> = std::env::args().collect();
    let dir = &a[1];
    let shard: usize = a.get(2).and_then(|s| s.parse().ok()).unwrap_or(0);
    let n: usize = a.get(3).and_then(|s| s.parse().ok()).unwrap_or(1);
    let max: usize = a.get(4).and_then(|s| s.parse().ok()).unwrap_or(usize::MAX);
    let mut files: Vec<std::path::PathBuf> = std::fs::read_dir(dir).expect("input directory").filter_map(|e| e.ok().map(|e| e.path())).collect();
    files.sort();
    let mut done = 0usize;
    let mut bytes = 0usize;
    for (i, f) in files.iter().enumerate() {
        if i % n != shard || done >= max {
            continue;
        }
        let data = std::fs::read(f).expect("readable input");
        println!("MIRI-CASE {}", f.display());
        if let Err(e) = vmodel::fuzzrun::run(&data) {
            println!("MIRI-ORACLE-FAIL {}: {}", f.display(), e);
            std::process::exit(1);
        }
        done += 1;
        bytes += data.len();
    }
    println!("MIRI-DONE cases={} bytes={}", done, bytes);
}
