#!/bin/bash
# Builds the verification harness offline from files on disk.
# Everything here is a cache warm-up except the first step: every check rebuilds what it needs.
export CARGO_NET_OFFLINE=true
VERIF_ROOT="$(cd "$(dirname "${BASH_SOURCE[0]}")" && pwd)"
export VERIF_ROOT
cd "$VERIF_ROOT/harness" || exit 1
cargo build --release -p vcheck || exit 1
# optional accelerators (a failure here is reported by the corresponding check, not by setup)
"$VERIF_ROOT/tools/build_features.sh" || echo "setup: feature builds failed (C16 will report)"
( cd "$VERIF_ROOT/harness/fuzzhost" && cargo +nightly fuzz build session --target-dir "$VERIF_ROOT/harness/target/fuzz" >/dev/null 2>&1 && cargo +nightly fuzz build lockstep --target-dir "$VERIF_ROOT/harness/target/fuzz" >/dev/null 2>&1 && cargo +nightly fuzz build fdiff --target-dir "$VERIF_ROOT/harness/target/fuzz" >/dev/null 2>&1 ) || echo "setup: fuzz build unavailable (C03 and the lock-step checks degrade to their proptest parts)"
( cd "$VERIF_ROOT/harness" && cargo build -p stackprobe >/dev/null 2>&1 ) || echo "setup: stack probe build failed (C03 will note it)"
( cd "$VERIF_ROOT/harness" && cargo build --release -p plainrun --target-dir "$VERIF_ROOT/harness/target/plain-off" >/dev/null 2>&1 && cargo build --release -p plainrun --features hooks --target-dir "$VERIF_ROOT/harness/target/plain-on" >/dev/null 2>&1 && cargo build --profile plain -p plainrun --target-dir "$VERIF_ROOT/harness/target/plain-rel" >/dev/null 2>&1 ) || echo "setup: hook-free runner build failed (C01, C03, C05 will report it as inconclusive)"
"$VERIF_ROOT/harness/target/release/vcheck" --warm || true
exit 0
