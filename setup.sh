#!/bin/bash
# Builds the verification harness offline from files on disk.
set -e
export CARGO_NET_OFFLINE=true
cd /verif/harness
cargo build --release -p vcheck
