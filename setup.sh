#!/bin/bash
# Builds the verification harness offline from files on disk.
# Everything here is a cache warm-up except the first step: every check rebuilds what it needs.
export CARGO_NET_OFFLINE=true
cd /verif/harness || exit 1
cargo build --release -p vcheck || exit 1
# optional accelerators (a failure here is reported by the corresponding check, not by setup)
/verif/tools/build_features.sh || echo "setup: feature builds failed (C16 will report)"
( cd /verif/harness/fuzzhost && cargo +nightly fuzz build session --target-dir /verif/harness/target/fuzz >/dev/null 2>&1 ) || echo "setup: fuzz build unavailable (C03 degrades to its proptest part)"
/verif/harness/target/release/vcheck --warm || true
exit 0
