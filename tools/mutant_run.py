#!/usr/bin/env python3
"""mutant_run.py <seeded-dir> [--tests] <ID>...   apply <dir>/patch.diff to /repo, run the listed checks (quick), revert.
Prints one line per check: CAUGHT / missed / inconclusive, and appends to /verif/seeded/results.jsonl."""
import subprocess, sys, json, os, time
d=os.path.abspath(sys.argv[1]); args=sys.argv[2:]
run_tests='--tests' in args; ids=[a for a in args if not a.startswith('--')]
tier='thorough' if '--thorough' in args else 'quick'
def sh(cmd,**k): return subprocess.run(cmd,shell=True,capture_output=True,text=True,**k)
assert sh('git -C /repo status --porcelain').stdout.strip()=='', "/repo not clean"
# the evidence files in /verif describe the unchanged tree: keep them, whatever the runs on the changed tree write
sh('rm -rf /verif/harness/run/evidence-keep && mkdir -p /verif/harness/run && cp -r /verif/evidence /verif/harness/run/evidence-keep')
r=sh(f'git -C /repo apply {d}/patch.diff'); assert r.returncode==0, r.stderr
res={"mutant":os.path.basename(d.rstrip('/')),"tier":tier,"checks":{}}
try:
    if run_tests:
        t=sh('cd /repo && cargo test --workspace --no-fail-fast --offline 2>&1 | grep -E "^test result"')
        passed=sum(int(l.split()[3]) for l in t.stdout.splitlines()); failed=sum(int(l.split()[5]) for l in t.stdout.splitlines())
        res["baseline"]={"passed":passed,"failed":failed}; print("baseline tests:",passed,"passed",failed,"failed")
    for i in ids:
        t0=time.time(); r=sh(f'cd /verif && VERIF_SEED={os.environ.get("VERIF_SEED","0")} ./vcheck {i} {tier}')
        v=[l for l in r.stdout.splitlines() if l.startswith('VIOLATION')]
        status='CAUGHT' if r.returncode==1 and v else ('missed' if r.returncode==0 else 'inconclusive')
        detail=[l for l in r.stdout.splitlines() if l.startswith(('expected','observed','INCONCLUSIVE','check:','regression'))][:4]
        res["checks"][i]={"status":status,"s":round(time.time()-t0,1),"detail":detail}
        print(f"{i}: {status} ({time.time()-t0:.0f}s)"); [print("   ",x[:300]) for x in detail]
finally:
    sh('git -C /repo checkout -- .')
    sh('cp /verif/harness/run/evidence-keep/*.json /verif/evidence/ && rm -rf /verif/harness/run/evidence-keep')
    assert sh('git -C /repo status --porcelain').stdout.strip()=='', "/repo not clean after revert"
open('/verif/seeded/results.jsonl','a').write(json.dumps(res)+"\n")
