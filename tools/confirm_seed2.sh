#!/bin/bash
# confirm_seed2.sh <ID> <k> <suffix> [round-prefix] — confirm change m<k> of a sub-agent in its scratch worktree /tmp/<round-prefix>-<ID> (default seed2)
# (baseline suite still 172/0 with the patch; demo fails with the patch and passes without), then store it as
# /verif/seeded/<ID>-<suffix>/ (patch.diff, demo/, README.md)
ID=$1; K=$2; SUF=$3; RND=${4:-seed2}; WT=/tmp/$RND-$ID; OUT=/tmp/$RND-$ID-out/m$K
export CARGO_TARGET_DIR=$WT/target CARGO_NET_OFFLINE=true
cd $WT || exit 1
git checkout -q -- . ; rm -f embedded-cli/tests/seed_demo.rs
[ -f $OUT/patch.diff ] || { echo "$ID m$K: no patch"; exit 1; }
demo=$(ls $OUT/demo/*.rs | head -1)
git apply $OUT/patch.diff || { echo "$ID m$K: PATCH DOES NOT APPLY"; exit 1; }
t=$(cargo test --workspace --offline 2>&1 | grep -E "^test result" | awk '{p+=$4; f+=$6} END {print p" passed "f" failed"}')
cp $demo embedded-cli/tests/seed_demo.rs
feat=""; grep -q "verif" $demo && feat="--features verif-hooks"
cargo test --offline -p embedded-cli $feat --test seed_demo >/tmp/$RND-$ID-m$K-with.log 2>&1; w=$?
git apply -R $OUT/patch.diff
cargo test --offline -p embedded-cli $feat --test seed_demo >/tmp/$RND-$ID-m$K-without.log 2>&1; wo=$?
rm -f embedded-cli/tests/seed_demo.rs
echo "$ID m$K: baseline with patch: $t; demo with patch: exit $w ($(grep -E '^test result' /tmp/$RND-$ID-m$K-with.log | tail -1)); without: exit $wo ($(grep -E '^test result' /tmp/$RND-$ID-m$K-without.log | tail -1))"
if [ "$t" = "172 passed 0 failed" ] && [ $w -ne 0 ] && [ $wo -eq 0 ]; then
  D=/verif/seeded/$ID-$SUF; mkdir -p $D/demo; cp $OUT/patch.diff $D/; cp $OUT/demo/* $D/demo/ 2>/dev/null; cp $OUT/README.md $D/ 2>/dev/null
  echo "$ID m$K: CONFIRMED -> $D"
else
  echo "$ID m$K: NOT CONFIRMED"
fi
