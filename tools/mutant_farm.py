#!/usr/bin/env python3
"""mutant_farm.py [--farm DIR] [--tier quick] [--fresh] <seeded-dir>:<ID>[,<ID>...] ...
Sensitivity runs that leave /repo and /verif alone: both trees are copied to DIR (default /root/mfarm; manifests rewritten to
point at the copied repository), each seeded patch is applied to the copy, the listed checks are run from the copy, the patch is
reverted. One line per (mutant, check): CAUGHT / missed / inconclusive; results appended to /verif/seeded/results.jsonl.
The copy of /verif is taken from the working tree (not HEAD) when --fresh is given or the farm does not exist yet."""
import subprocess, sys, json, os, time, shutil
args=sys.argv[1:]
farm='/root/mfarm'; tier='quick'; fresh=False; jobs=[]
i=0
while i<len(args):
    a=args[i]
    if a=='--farm': farm=args[i+1]; i+=2; continue
    if a=='--tier': tier=args[i+1]; i+=2; continue
    if a=='--fresh': fresh=True; i+=1; continue
    d,ids=a.split(':'); jobs.append((os.path.abspath(d),ids.split(','))); i+=1
def sh(cmd,**k): return subprocess.run(cmd,shell=True,capture_output=True,text=True,**k)
V=f'{farm}/verif'; R=f'{farm}/repo'
if fresh or not os.path.isdir(V):
    os.makedirs(farm,exist_ok=True)
    sh(f"rsync -a --delete --exclude target --exclude /harness/gen --exclude /harness/run --exclude .git --exclude /replays /verif/ {V}/")
    sh(f"rsync -a --delete --exclude target /repo/ {R}/")
    sh('sed -i \'s#"/repo/embedded-cli"#"' + R + '/embedded-cli"#\' ' + V + '/harness/*/Cargo.toml')
    assert sh(f'git -C {R} status --porcelain').stdout.strip()=='', "farm repo not clean"
env=dict(os.environ, VERIF_REPO=R, CARGO_NET_OFFLINE='true')
for d,ids in jobs:
    assert sh(f'git -C {R} status --porcelain').stdout.strip()=='', "farm repo not clean"
    r=sh(f'git -C {R} apply {d}/patch.diff'); assert r.returncode==0, (d,r.stderr)
    res={"mutant":os.path.basename(d.rstrip('/')),"tier":tier,"farm":True,"checks":{}}
    try:
        for cid in ids:
            t0=time.time(); r=sh(f'cd {V} && VERIF_SEED={os.environ.get("VERIF_SEED","0")} ./vcheck {cid} {tier}',env=env)
            v=[l for l in r.stdout.splitlines() if l.startswith('VIOLATION')]
            status='CAUGHT' if r.returncode==1 and v else ('missed' if r.returncode==0 else 'inconclusive')
            detail=[l for l in r.stdout.splitlines() if l.startswith(('expected','observed','INCONCLUSIVE','check:','regression'))][:4]
            res["checks"][cid]={"status":status,"s":round(time.time()-t0,1),"detail":detail}
            print(f"{res['mutant']} {cid}: {status} ({time.time()-t0:.0f}s)",flush=True); [print("   ",x[:260],flush=True) for x in detail]
    finally:
        sh(f'git -C {R} checkout -- .'); sh(f'git -C {R} clean -fdq')
    open('/verif/seeded/results.jsonl','a').write(json.dumps(res)+"\n")
