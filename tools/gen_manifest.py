#!/usr/bin/env python3
"""Regenerates /verif/MANIFEST.json from the table below (kept next to the checks so the two stay in sync)."""
import json, subprocess

HOOK = subprocess.check_output(["git", "-C", "/repo", "log", "--format=%h", "--grep=verif-hooks", "-1"]).decode().strip()

CHECKS = {
 "C01": ("exploration", "model-based stateful PBT (proptest op sequences) vs reference tokenizer/classifier + ideal editor + terminal emulator; the same oracle inside a coverage-guided libFuzzer+ASan target",
         "Random editing sessions against the real Cli; dispatch compared with an independent reference tokenisation/classification of the line observed just before Enter, the line itself with an ideal-editor model and a terminal emulator; a coverage-guided campaign (16 libFuzzer processes) searches the same session space with the same oracle; no exhaustive claim (session space is unbounded).", "6/C01"),
 "C02": ("exploration", "exhaustive enumeration of high-byte sequences + random malformed streams through the Cli, validity oracle and differential against std's UTF-8 decoder",
         "Exhaustive for all sequences of up to 3 bytes >= 0x80 (quick) / up to 4 bytes (thorough) at decoder level; sampled for whole-Cli streams.", "6/C02"),
 "C03": ("exploration", "coverage-guided fuzzing (cargo-fuzz/libFuzzer + ASan, 16 processes) + random raw-byte sessions (proptest), invariant oracle inside the target, process isolation for aborts; the same sessions differentially on a build without the verification hooks; stack-depth probe on an unoptimised build; thorough adds generated sessions under Miri",
         "Panics, aborts, failed unsafe preconditions (debug assertions on), arithmetic overflow (checks on), sanitizer reports and the explicit invariants behind every unchecked operation are searched for over raw byte sessions with all buffer sizes 0..=64; absence is not established.", "6/C03"),
 "C04": ("exploration", "exhaustive concatenation of boundary key units + CSI length / byte-pair / triple sweeps + random streams + coverage-guided fuzzing with a terminal dictionary, all differential against a byte-level reference decoder",
         "Exhaustive to depth 4 (quick) / 5 (thorough) units over 28 boundary units, which exceeds the decoder's memory depth (previous byte + CSI flag + up to 3 pending UTF-8 bytes); every CSI length 0..=600 (thorough 5000) parameter bytes; random beyond.", "6/C04"),
 "C05": ("exploration", "state-space closure of an ideal-editor model replayed on the real Editor + model-based random sessions + the same oracle inside a coverage-guided libFuzzer+ASan target",
         "Every edge of the closure for small buffers is replayed on the real editor (exhaustive for those sizes and alphabet); random sessions for larger buffers and the Cli integration.", "6/C05"),
 "C06": ("exploration", "model-based stateful PBT with an ECMA-48 terminal emulator in lock-step, also as the oracle of a coverage-guided libFuzzer+ASan target",
         "What a terminal would display is recomputed from the sink bytes after every call and compared with prompt + line; sampled sessions.", "6/C06"),
 "C07": ("exploration", "exhaustive enumeration of short lines and length sweeps against a reference grammar (function level and typed through the Cli) + round-trip property on random string lists + coverage-guided fuzzing with the grammar inside the target",
         "Exhaustive for all lines of up to 10 (quick) / 11 (thorough) symbols over a 6-symbol alphabet covering every tokenizer state, up to 7/8 symbols through the whole Cli, and a second alphabet with Unicode blanks; lines touching an open escape are still compared structurally (pattern reference); round trip and long lines sampled.", "6/C07"),
 "C08": ("exploration", "exhaustive enumeration of small token lists, all-scalar sweep, iterator-idiom metamorphic checks, random lists and coverage-guided fuzzing, differential against a reference classifier",
         "Exhaustive for small lists over a 6-symbol alphabet; random beyond; both through ArgList directly and through the whole Cli.", "6/C08"),
 "C09": ("exploration", "generated programs (declarations compiled with the real derive macros) x generated lines (typed, recalled, assembled out of order, corrected), differential against an interpreter of the declaration model",
         "Declarations are sampled from a grammar covering the derive attributes and compiled by the repository's macros at check time; lines are proptest strategies built from each declaration's model and shrink as values. Program space is sampled, not exhausted.", "6/C09"),
 "C10": ("exploration", "state-space closure of a list model replayed on the real History + random op sequences + Cli sessions",
         "Every edge of the closure for small history buffers is replayed (exhaustive for those sizes and lines); random sequences up to 40-byte buffers; Cli sessions read the history back with Up/Down walks.", "6/C10"),
 "C11": ("exploration", "PBT over generated name sets x lines x cursor x buffer size against a longest-common-continuation model",
         "Library half with generated names through a protocol-conforming Autocomplete impl, derived half with a fixed derived enum/group, macro half with generated declarations compiled by the repository's macros; sampled.", "6/C11"),
 "C12": ("exploration", "generated programs x generated help-shaped lines (typed, recalled, assembled out of order, corrected); routing oracle + containment of every declared fact in the help output",
         "Same generated declarations as C09; help output is checked for every fact the declaration states (names, summaries, usage path, positionals, options, sub-commands) without pinning layout.", "6/C12"),
 "C13": ("exploration", "model-based PBT of output scripts against a framing model on bytes and on a terminal emulator, also as the oracle of a coverage-guided libFuzzer+ASan target",
         "Random output scripts (all writer entry points, arbitrary splits) at random points of sessions; sampled.", "6/C13"),
 "C14": ("fault_enumeration", "exhaustive single-fault injection at every sink call of a scenario corpus (once and permanent, every ErrorKind) + random faults in generated sessions",
         "Every write/flush call index of every corpus scenario is failed in turn in both modes and with each of the 18 error kinds embedded_io names, then the session continues on a repaired sink; generated sessions extend the corpus.", "6/C14"),
 "C15": ("exploration", "model-based PBT with an unflushed-byte counter in the sink (invariant after every call), also as the oracle of a coverage-guided libFuzzer+ASan target; the same sessions on sinks of other types (zero-sized, large, &mut)",
         "Invariant over call histories; sampled sessions covering every output-producing path.", "6/C15"),
 "C16": ("exploration", "configuration matrix: the runner is built for all 8 feature subsets; model-based PBT per build + metamorphic equality across builds + generated declarations compiled without the help feature",
         "All 8 configurations are built and exercised on every run (exhaustive over configurations); sessions are sampled; generated declarations that use help / -h / --help as ordinary names are compiled with help off and judged by the C09 interpreter.", "6/C16"),
 "C17": ("exploration", "exhaustive enumeration of all Unicode scalar values, differential against std and round trip through the Cli",
         "All 1,112,031 scalar values are enumerated on every run (utils, decoder, and a full type/edit/submit/recall round trip); thorough adds all 25 neighbour contexts per scalar.", "6/C17"),
}

NOT_YET = {
}

def main():
    import os
    extra = {}
    p = "/verif/tools/manifest_extra.json"
    if os.path.exists(p):
        extra = json.load(open(p))
    checks = []
    for pid, (cat, tech, text, ref) in sorted({**CHECKS, **{k: tuple(v) for k, v in extra.get("checks", {}).items()}}.items()):
        checks.append({
            "property_id": pid,
            "quick_cmd": f"./vcheck {pid} quick",
            "thorough_cmd": f"./vcheck {pid} thorough",
            "evidence_file": f"/verif/evidence/{pid}.json",
            "replay_cmd_template": f"./vcheck {pid} replay {{path}}",
            "engine": "vcheck",
            "level_claimed": {"category": cat, "text": text, "design_ref": f"DESIGN.md section {ref}"},
            "level_note": "Trusted base: the reference models in harness/vmodel (written from the property text), proptest's generators/shrinker, rustc with debug assertions and overflow checks on; generated search never establishes absence outside the sub-spaces marked exhaustive in the evidence.",
            "technique": tech,
        })
    na = [{"property_id": k, "reason": v} for k, v in sorted(NOT_YET.items()) if k not in {c["property_id"] for c in checks}]
    m = {
        "version": 1,
        "setup_cmd": "cd /verif && ./setup.sh",
        "hooks": {
            "guard": "cargo feature verif-hooks (embedded-cli/Cargo.toml), off by default",
            "enable": "harness crates depend on /repo/embedded-cli by path with features = [\"verif-hooks\"]",
            "baseline_off_cmd": "cd /repo && cargo test --workspace --no-fail-fast --offline",
            "source_commits": [HOOK],
            "add_only": True,
        },
        "engines": [
            {"name": "vcheck", "path": "/verif/harness", "serves_properties": [c["property_id"] for c in checks],
             "kind_free_text": "Rust harness: proptest-driven and enumerative generators, reference models, terminal emulator, fault-injecting sink, 16 worker processes per check"},
            {"name": "declgen", "path": "/verif/harness/vmodel/src/decl.rs", "serves_properties": ["C09", "C11", "C12", "C16"],
             "kind_free_text": "generator of derive-macro declarations (Rust source + model) and interpreter of the model; generated crates are compiled with the repository's macros at check time"},
            {"name": "libfuzzer", "path": "/verif/harness/fuzzhost/fuzz", "serves_properties": ["C03", "C01", "C05", "C06", "C13", "C15", "C04", "C07", "C08"],
             "kind_free_text": "cargo-fuzz targets (libFuzzer + AddressSanitizer, nightly): `session` (raw byte sessions, C03 invariants inside) `lockstep` (key/API sessions with the lock-step semantic oracle of C01/C05/C06/C13/C15 inside, selected by VFUZZ_FLAGS) and `fdiff` (function-level differentials of C04/C07/C08 against their reference models, selected by VFUZZ_MODE, with dictionaries under corpus/dict)"},
            {"name": "miri", "path": "/verif/harness/mirirun", "serves_properties": ["C03"],
             "kind_free_text": "generated sessions interpreted by Miri (thorough tier of C03): aliasing, uninitialised reads, dangling/misaligned accesses in the library's unsafe blocks"},
            {"name": "plainrun", "path": "/verif/harness/plainrun", "serves_properties": ["C01", "C03", "C05"],
             "kind_free_text": "session runner over the public API only, built without the verif-hooks feature, with it, and without it in a profile without debug assertions and overflow checks; generated sessions must behave identically in all three builds (the verdicts reached with hooks on carry over to the library as users build it)"},
            {"name": "vsession", "path": "/verif/harness/vsession", "serves_properties": ["C16"],
             "kind_free_text": "session trace server built once per subset of {history, autocomplete, help}"},
        ],
        "checks": checks,
        "not_applicable": na,
        "notes": "Exit codes: 0 held, 1 VIOLATION line, 2 INCONCLUSIVE (harness problem, never a verdict). VERIF_SEED selects the PRNG stream; regressions under /verif/regress are replayed first on every run.",
    }
    json.dump(m, open("/verif/MANIFEST.json", "w"), indent=2, ensure_ascii=False)
    print("checks:", len(checks), "not_applicable:", len(na))

main()
