#!/bin/bash
# Builds vsession for all 8 subsets of {history, autocomplete, help}, in parallel, each into its own target dir.
# The build itself is part of C16: every feature combination must compile.
export CARGO_NET_OFFLINE=true
ROOT="${VERIF_ROOT:-$(cd "$(dirname "${BASH_SOURCE[0]}")/.." && pwd)}"
cd "$ROOT/harness" || exit 2
pids=()
fail=0
for mask in 0 1 2 3 4 5 6 7; do
  feats=()
  (( mask & 1 )) && feats+=(history)
  (( mask & 2 )) && feats+=(autocomplete)
  (( mask & 4 )) && feats+=(help)
  f=$(IFS=,; echo "${feats[*]}")
  ( cargo build --release -p vsession --no-default-features --features "$f" --target-dir "$ROOT/harness/target/feat-$mask" >"$ROOT/harness/target/feat-$mask.log" 2>&1 ) &
  pids+=($!)
done
for i in "${!pids[@]}"; do
  if ! wait "${pids[$i]}"; then echo "FEATURE-BUILD-FAILED mask=$i"; fail=1; fi
done
exit $fail
