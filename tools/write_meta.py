#!/usr/bin/env python3
"""write_meta.py — (re)writes seeded/<ID>-<n>/meta.json for sub-agent changes from seeded/needs.json and the latest
result per (mutant, check) in seeded/results.jsonl."""
import json, os, glob, re
needs=json.load(open('/verif/seeded/needs.json'))
latest={}
for l in open('/verif/seeded/results.jsonl'):
    r=json.loads(l)
    for c,v in r['checks'].items():
        latest[(r['mutant'],c)]={"status":v['status'],"tier":r.get('tier','quick'),"detail":v.get('detail',[])[:3]}
for d in sorted(glob.glob('/verif/seeded/C??-*')):
    m=os.path.basename(d)
    if m not in needs: continue
    pid=m.split('-')[0]
    checks={c:v for (mm,c),v in latest.items() if mm==m}
    meta={"breaks_property":pid,
      "origin":"fresh sub-agent given only the property text and a scratch worktree (no access to /verif)",
      "needs_to_manifest":needs[m],
      "confirmed":"tools/confirm_seed2.sh: with the patch the 172 baseline tests pass; demo/seed_demo.rs fails with the patch and passes without it (in the scratch worktree, since removed)",
      "checks_run":checks,
      "how_to_rerun":f"python3 /verif/tools/mutant_run.py /verif/seeded/{m} {pid}   (or tools/mutant_farm.py seeded/{m}:{pid})"}
    json.dump(meta,open(d+'/meta.json','w'),indent=1,ensure_ascii=False)
print("meta written")
