#!/bin/bash
# confirm_seed.sh <ID> [suffix]  — confirm a sub-agent's seeded change in its scratch worktree /tmp/seed-<ID>,
# then store it as /verif/seeded/<ID>-<suffix>/ (patch.diff, demo/, README.md, meta.json skeleton)
ID=$1; SUF=${2:-1}; WT=/tmp/seed-$ID; OUT=/tmp/seed-$ID-out
export CARGO_TARGET_DIR=$WT/target
cd $WT || exit 1
git checkout -q -- . ; rm -f embedded-cli/tests/seed_demo.rs
demo=$(ls $OUT/demo/*.rs | head -1)
git apply $OUT/patch.diff || { echo "PATCH DOES NOT APPLY"; exit 1; }
t=$(cargo test --workspace --offline 2>&1 | grep -E "^test result" | awk '{p+=$4; f+=$6} END {print p" passed "f" failed"}')
echo "with patch, baseline suite: $t"
cp $demo embedded-cli/tests/seed_demo.rs
feat=""; grep -q "verif" $demo && feat="--features verif-hooks"
cargo test --offline -p embedded-cli $feat --test seed_demo >/tmp/seed-$ID-with.log 2>&1; w=$?
git apply -R $OUT/patch.diff
cargo test --offline -p embedded-cli $feat --test seed_demo >/tmp/seed-$ID-without.log 2>&1; wo=$?
echo "demo with patch: exit $w ($(grep -E '^test result' /tmp/seed-$ID-with.log | tail -1)); without: exit $wo ($(grep -E '^test result' /tmp/seed-$ID-without.log | tail -1))"
rm -f embedded-cli/tests/seed_demo.rs
if [ "$t" = "172 passed 0 failed" ] && [ $w -ne 0 ] && [ $wo -eq 0 ]; then
  D=/verif/seeded/$ID-$SUF; mkdir -p $D/demo; cp $OUT/patch.diff $D/; cp $OUT/demo/* $D/demo/ 2>/dev/null; cp $OUT/README.md $D/ 2>/dev/null
  echo "CONFIRMED -> $D"
else
  echo "NOT CONFIRMED"
fi
